"""Invoke one operation of the real system under the seams and record its outcome (DESIGN.md §2.5)."""
import importlib
import io
import os
import signal
import sys

from . import seams
from .clock import BudgetExceeded, StepClock
from .faults import FaultPlan


class WallTimeout(BaseException):
    """Backstop only: the operation did not finish within the wall-clock limit (a hang that produces no
    line events, or an untraced infinite loop).  Never used to decide anything but 'did not terminate'."""


def _on_alarm(signum, frame):
    raise WallTimeout("operation exceeded the wall-clock backstop")


class Outcome(object):
    __slots__ = ("kind", "exc_type", "exc_msg", "exc_site", "steps", "events", "stdout", "stderr", "fired",
                 "result", "clock", "mismatch")

    def __init__(self):
        self.kind = "ok"
        self.exc_type = None
        self.exc_msg = None
        self.exc_site = None
        self.steps = 0
        self.events = []
        self.stdout = ""
        self.stderr = ""
        self.fired = []
        self.result = None
        self.clock = None
        self.mismatch = None

    @property
    def ok(self):
        return self.kind == "ok"

    def brief(self):
        d = {"kind": self.kind}
        if self.exc_type:
            d["exc"] = self.exc_type
            d["msg"] = (self.exc_msg or "")[:160]
            if self.exc_site:
                d["at"] = self.exc_site
        if self.steps:
            d["steps"] = self.steps
        if self.fired:
            d["fired"] = self.fired
        return d

    def key(self):
        """What enters outcome digests: no message text (messages embed absolute scratch paths)."""
        return [self.kind, self.exc_type, self.exc_site]

    def io_events(self):
        return [e for e in self.events if "io" in e]


def subst(obj, world):
    """Replace the literal '{ROOT}' in argv / kwargs strings by the world root."""
    if isinstance(obj, str):
        return obj.replace("{ROOT}", world.root)
    if isinstance(obj, list):
        return [subst(x, world) for x in obj]
    if isinstance(obj, tuple):
        return tuple(subst(x, world) for x in obj)
    if isinstance(obj, dict):
        return {k: subst(v, world) for k, v in obj.items()}
    return obj


def _resolve(dotted):
    mod, _, attr = dotted.rpartition(".")
    return getattr(importlib.import_module(mod), attr)


def _exc_site(tb):
    from . import CDD_DIR, CDD_TESTS_DIR, REPO
    site = None
    while tb is not None:
        fn = tb.tb_frame.f_code.co_filename
        if fn.startswith(CDD_DIR) and not fn.startswith(CDD_TESTS_DIR):
            site = "%s:%d" % (fn[len(REPO) + 1:], tb.tb_lineno)
        tb = tb.tb_next
    return site


def _reload_emit_file(mod, absent):
    import importlib
    import importlib.util
    real = importlib.util.find_spec
    if absent:
        importlib.util.find_spec = lambda name, package=None: None if name == "black" else real(name, package)
    try:
        importlib.reload(mod)
    finally:
        importlib.util.find_spec = real


def invoke(world, op, faults=None, trace=False, budget=None, monitor=False, track=False, tail=0,
           site_at=None, black=True, call=None, wall_s=30, with_exits=False, cwd_on_path=False, bytecode=False):
    """Run one operation.

    op: {"cmd": "cli", "argv": [...]}  -> cdd.__main__.main(argv)
        {"cmd": "sdk", "fn": "pkg.mod.func", "args": [...], "kwargs": {...}}
    ``call`` overrides with a python callable (used by checks that build arguments in memory).
    faults: list of fault dicts (see faults.py) or None.
    """
    plan = faults if isinstance(faults, FaultPlan) else FaultPlan(faults or ())
    out = Outcome()
    lf = plan.line_fault()
    clock = None
    if trace or lf is not None or budget is not None or track or site_at or with_exits:
        clock = StepClock(budget=budget, inject=lf, track=track, tail=tail, site_at=site_at, with_exits=with_exits)
    out.clock = clock

    if call is None:
        if op["cmd"] == "cli":
            import cdd.__main__ as cdd_main
            argv = subst(op["argv"], world)
            call = lambda: cdd_main.main(argv)  # noqa: E731
        elif op["cmd"] == "sdk":
            fn = _resolve(op["fn"])
            args = subst(op.get("args", []), world)
            kwargs = subst(op.get("kwargs", {}), world)
            call = lambda: fn(*args, **kwargs)  # noqa: E731
        else:
            raise ValueError("unknown op %r" % (op,))

    # state the harness plants in cdd, set and restored around every operation
    old_cwd = os.getcwd()
    old_out, old_err = sys.stdout, sys.stderr
    old_argv = sys.argv
    sink_out, sink_err = io.StringIO(), io.StringIO()
    exmod_utils = sys.modules.get("cdd.compound.exmod_utils")
    old_stream = getattr(exmod_utils, "EXMOD_OUT_STREAM", None) if exmod_utils else None
    emit_file = sys.modules.get("cdd.shared.emit.file")
    if not black:
        # dep_absent(black): cdd's OWN fallback is used, not a copy of it - the module is re-executed with
        # find_spec("black") answering None, and re-executed again afterwards with the real answer
        if emit_file is None:
            import cdd.shared.emit.file as emit_file
        _reload_emit_file(emit_file, absent=True)
    os.chdir(world.root)
    old_dwb = sys.dont_write_bytecode
    if bytecode:
        # the interpreter's default: modules imported during the operation get a __pycache__ entry (the harness itself
        # runs with bytecode writing off; writes outside the world stay refused by the audit seam)
        sys.dont_write_bytecode = False
    if cwd_on_path:
        # `python -m cdd` puts the current directory first on sys.path: whatever is importable from the project
        # directory is importable by the tool
        sys.path.insert(0, world.root)
    sys.stdout, sys.stderr = sink_out, sink_err
    sys.argv = ["python -m cdd"]
    if exmod_utils is not None:
        exmod_utils.EXMOD_OUT_STREAM = sink_out
    st = seams.begin(world, plan, monitor=monitor, clock=clock)
    old_alarm = signal.signal(signal.SIGALRM, _on_alarm) if wall_s else None
    try:
        try:
            if wall_s:
                signal.setitimer(signal.ITIMER_REAL, wall_s)
            if clock is not None:
                clock.start()
            try:
                out.result = call()
            finally:
                if clock is not None:
                    clock.stop()
                if wall_s:
                    signal.setitimer(signal.ITIMER_REAL, 0)
        except WallTimeout as e:
            out.kind = "timeout"
            out.exc_type = "WallTimeout"
            out.exc_msg = str(e)
        except seams.SimCrash as e:
            out.kind = "crashed"
            out.exc_type = "SimCrash"
            out.exc_msg = str(e)
        except BudgetExceeded as e:
            out.kind = "budget"
            out.exc_type = "BudgetExceeded"
            out.exc_msg = str(e)
        except BaseException as e:  # SystemExit (argparse), KeyboardInterrupt injections, everything
            out.kind = "raised"
            out.exc_type = type(e).__name__
            out.exc_msg = str(e)[:400]
            out.exc_site = _exc_site(e.__traceback__)
            if st.crashed:
                out.kind = "crashed"
    finally:
        if wall_s:
            signal.setitimer(signal.ITIMER_REAL, 0)
            signal.signal(signal.SIGALRM, old_alarm)
        seams.end(st)
        sys.dont_write_bytecode = old_dwb
        if cwd_on_path:
            try:
                sys.path.remove(world.root)
            except ValueError:
                pass
        sys.stdout, sys.stderr = old_out, old_err
        sys.argv = old_argv
        try:
            os.chdir(old_cwd)
        except OSError:
            os.chdir("/")
        if exmod_utils is not None:
            exmod_utils.EXMOD_OUT_STREAM = old_stream
        if not black:
            _reload_emit_file(emit_file, absent=False)
    out.events = st.events
    out.stdout = sink_out.getvalue()
    out.stderr = sink_err.getvalue()
    out.fired = list(plan.fired)
    if clock is not None:
        out.steps = clock.steps
        if clock.fired:
            out.fired.append(clock.fired)
        out.mismatch = clock.mismatch
    return out
