"""The seams the simulator owns (DESIGN.md §2.1).

S1  open seam      builtins.open / io.open replaced by ``sim_open``
S2  audit seam     one permanent audit hook, gated by the active SeamState; also the fault seam for
                   directory operations (an audit hook may raise)
S5  stdio          sinks installed by ops.invoke

Everything here is deterministic: no clock, no randomness, no set iteration.
"""
import builtins
import errno as _errno
import io
import os
import sys

from . import CDD_DIR, CDD_TESTS_DIR, REPO

REAL_OPEN = io.open
assert type(REAL_OPEN).__name__ == "builtin_function_or_method", "seams imported after patching"


class SimCrash(BaseException):
    """The simulated process died at a seam call.  No further effect of the SUT reaches the world."""


ERRNO = {
    "ENOENT": _errno.ENOENT, "EACCES": _errno.EACCES, "EIO": _errno.EIO, "ENOSPC": _errno.ENOSPC,
    "EROFS": _errno.EROFS, "EDQUOT": _errno.EDQUOT, "EEXIST": _errno.EEXIST, "EMFILE": _errno.EMFILE,
    "EISDIR": _errno.EISDIR, "ENOTDIR": _errno.ENOTDIR,
}

# which errno values make sense for which seam-call kind (used by generators and enumerators)
ERRNOS_FOR = {
    "open_r": ("ENOENT", "EACCES", "EIO"),
    "read": ("EIO",),
    "open_w": ("EACCES", "ENOSPC", "EROFS"),
    "close_w": ("ENOSPC", "EIO", "EDQUOT"),
    "mkdir": ("EACCES", "ENOSPC", "EIO"),
    "listdir": ("EACCES", "EIO"),
    "scandir": ("EACCES", "EIO"),
    "rmdir": ("EACCES",), "remove": ("EACCES",), "rename": ("EACCES",),
}
FAULTABLE = frozenset(ERRNOS_FOR)
MUTATING = frozenset(("open_w", "close_w", "mkdir", "rmdir", "remove", "rename", "truncate", "chmod",
                      "utime", "link", "symlink", "open_raw_w", "replace"))


def _oserror(name, path):
    num = ERRNO[name]
    return OSError(num, "[sim] " + os.strerror(num), path)


def cdd_site(depth=2, limit=40):
    """Nearest frame that executes non-test cdd source: 'cdd/x/y.py:123' (or None)."""
    f = sys._getframe(depth)
    n = 0
    while f is not None and n < limit:
        fn = f.f_code.co_filename
        if fn.startswith(CDD_DIR) and not fn.startswith(CDD_TESTS_DIR):
            return "%s:%d" % (fn[len(REPO) + 1:], f.f_lineno)
        f = f.f_back
        n += 1
    return None


class SeamState(object):
    """Per-operation seam state: event log, fault plan, crash flag."""

    def __init__(self, world, plan=None, monitor=False, extra_roots=()):
        self.world = world
        self.plan = plan
        self.monitor = monitor          # also record import / exec / compile / spawn / socket events
        self.events = []
        self.io_index = 0               # number of faultable seam calls so far in this operation
        self.active = False
        self.busy = 0                   # re-entrancy guard: >0 while seam code itself does I/O
        self.crashed = False
        self.open_files = []
        self.extra_roots = tuple(extra_roots)
        self.clock = None               # the StepClock of this operation, when one is running

    # -- event log ---------------------------------------------------------------------------
    def log(self, kind, path, site=None, **kw):
        inside = self.world.contains(path) if isinstance(path, str) else False
        ev = {"n": len(self.events), "kind": kind,
              "path": (self.world.rel(path) if inside else path), "inside": inside,
              "site": site}
        if kind in FAULTABLE:
            ev["io"] = self.io_index
            self.io_index += 1
        if self.clock is not None:
            ev["step"] = self.clock.steps
        ev.update(kw)
        self.events.append(ev)
        return ev

    def fault_for(self, ev):
        """Consult the plan for a faultable event.  Returns the fault dict that fires, or None."""
        if self.crashed:
            raise SimCrash("already crashed")
        if self.plan is None or "io" not in ev:
            return None
        flt = self.plan.on_io(ev)
        if flt is None:
            return None
        ev["fault"] = dict(flt)
        if flt["kind"] == "crash":
            self.crash()
            raise SimCrash("crash at seam call %d (%s %s)" % (ev["io"], ev["kind"], ev["path"]))
        return flt

    def crash(self):
        self.crashed = True
        for f in self.open_files:
            f._lose()


CUR = None  # the active SeamState


def _abspath(p):
    if isinstance(p, bytes):
        p = os.fsdecode(p)
    elif not isinstance(p, str):
        try:
            p = os.fspath(p)
        except TypeError:
            return None
        if isinstance(p, bytes):
            p = os.fsdecode(p)
    return os.path.abspath(p)


# ------------------------------------------------------------------------------------------ S1
class SimFile(object):
    """Write-mode file inside the world.  The real open (create/truncate) has already happened;
    written data stays in memory until close(), where the fault plan decides how much persists."""

    def __init__(self, st, path, mode, encoding, newline, ev_open):
        self._st = st
        self._path = path
        self.name = path
        self.mode = mode
        self._binary = "b" in mode
        self._encoding = encoding
        self._newline = newline
        self._buf = []
        self.closed = False
        self._lost = False
        self._ev_open = ev_open
        st.open_files.append(self)

    def _lose(self):
        self._lost = True
        self._buf = []

    def writable(self):
        return True

    def readable(self):
        return False

    def seekable(self):
        return False

    def write(self, s):
        if self.closed:
            raise ValueError("I/O operation on closed file.")
        if self._st.crashed:
            raise SimCrash("write after crash")
        if self._binary:
            if not isinstance(s, (bytes, bytearray, memoryview)):
                raise TypeError("a bytes-like object is required, not '%s'" % type(s).__name__)
            s = bytes(s)
        elif not isinstance(s, str):
            raise TypeError("write() argument must be str, not %s" % type(s).__name__)
        self._buf.append(s)
        return len(s)

    def writelines(self, lines):
        for ln in lines:
            self.write(ln)

    def flush(self):
        if self.closed:
            raise ValueError("I/O operation on closed file.")

    def fileno(self):
        raise io.UnsupportedOperation("fileno")

    def isatty(self):
        return False

    def _persist(self, data):
        """Buffered data reaches the file where the real descriptor would put it: at the end for
        append mode, from offset 0 (no truncation at this point) for w/x modes."""
        st = self._st
        st.busy += 1
        try:
            if "a" in self.mode:
                if self._binary:
                    with REAL_OPEN(self._path, "ab") as f:
                        f.write(data)
                else:
                    with REAL_OPEN(self._path, "a", encoding=self._encoding, newline=self._newline) as f:
                        f.write(data)
            else:
                raw = data if self._binary else data.encode(self._encoding or "utf-8")
                if not self._binary and self._newline in (None, "\r\n") and os.linesep != "\n":
                    raw = raw.replace(b"\n", os.linesep.encode())
                with REAL_OPEN(self._path, "r+b") as f:
                    f.seek(0)
                    f.write(raw)
        finally:
            st.busy -= 1

    def close(self):
        if self.closed:
            return
        self.closed = True
        st = self._st
        try:
            st.open_files.remove(self)
        except ValueError:
            pass
        if self._lost or st.crashed:
            return
        data = (b"" if self._binary else "").join(self._buf)
        self._buf = []
        if not st.active:
            self._persist(data)
            return
        ev = st.log("close_w", self._path, site=cdd_site(), nbytes=len(data))
        try:
            flt = st.fault_for(ev)
        except SimCrash:
            raise
        if flt is None:
            self._persist(data)
            return
        keep = flt.get("keep", 0)
        if isinstance(keep, float):
            keep = int(keep * len(data))
        keep = max(0, min(int(keep), len(data)))
        ev["fault"]["keep"] = keep
        ev["kept"] = keep
        self._persist(data[:keep])
        raise _oserror(flt.get("errno", "ENOSPC"), self._path)

    def __enter__(self):
        return self

    def __exit__(self, *exc):
        self.close()
        return False

    def __del__(self):
        # an unclosed file object flushes on finalisation, like the real one (no fault consulted)
        try:
            if not self.closed and not self._lost:
                self.closed = True
                data = (b"" if self._binary else "").join(self._buf)
                if data and not self._st.crashed:
                    self._persist(data)
        except Exception:
            pass


class SimReadFile(object):
    """Read-mode file inside the world; read() is a seam call of its own."""

    def __init__(self, st, f, path):
        self._st = st
        self._f = f
        self._path = path
        self.name = path

    def _gate(self):
        st = self._st
        if st.active and not st.busy:
            ev = st.log("read", self._path, site=cdd_site(3))
            flt = st.fault_for(ev)
            if flt is not None:
                raise _oserror(flt.get("errno", "EIO"), self._path)

    def read(self, *a):
        self._gate()
        return self._f.read(*a)

    def readline(self, *a):
        return self._f.readline(*a)

    def readlines(self, *a):
        self._gate()
        return self._f.readlines(*a)

    def __iter__(self):
        self._gate()
        return iter(self._f)

    def __next__(self):
        return next(self._f)

    def close(self):
        return self._f.close()

    @property
    def closed(self):
        return self._f.closed

    def __enter__(self):
        return self

    def __exit__(self, *exc):
        self._f.close()
        return False

    def __getattr__(self, item):
        return getattr(self._f, item)


def sim_open(file, mode="r", buffering=-1, encoding=None, errors=None, newline=None, closefd=True,
             opener=None):
    st = CUR
    if st is None or not st.active or st.busy or isinstance(file, int):
        return REAL_OPEN(file, mode, buffering, encoding, errors, newline, closefd, opener)
    path = _abspath(file)
    if path is None:
        return REAL_OPEN(file, mode, buffering, encoding, errors, newline, closefd, opener)
    writing = any(c in mode for c in "wax+")
    inside = st.world.contains(path)
    if not inside and not writing:
        if st.monitor:
            st.log("open_r_outside", path, site=cdd_site())
        return REAL_OPEN(file, mode, buffering, encoding, errors, newline, closefd, opener)
    if st.crashed:
        raise SimCrash("open after crash")
    site = cdd_site()
    if writing and not inside:
        # never let the SUT write outside the simulated world: log it (the oracles decide) and refuse
        st.log("open_w", path, site=site, mode=mode, refused=True)
        raise PermissionError(_errno.EACCES, "[sim] write outside the simulated world refused", path)
    if not writing:
        ev = st.log("open_r", path, site=site, mode=mode)
        flt = st.fault_for(ev)
        if flt is not None:
            raise _oserror(flt.get("errno", "EIO"), path)
        st.busy += 1
        try:
            f = REAL_OPEN(file, mode, buffering, encoding, errors, newline, closefd, opener)
        finally:
            st.busy -= 1
        return SimReadFile(st, f, path)
    existed = os.path.lexists(path)
    ev = st.log("open_w", path, site=site, mode=mode, existed=existed)
    flt = st.fault_for(ev)
    if flt is not None:
        raise _oserror(flt.get("errno", "EACCES"), path)
    if "+" in mode:
        st.busy += 1
        try:
            f = REAL_OPEN(file, mode, buffering, encoding, errors, newline, closefd, opener)
        finally:
            st.busy -= 1
        ev["done"] = True
        return f
    st.busy += 1
    try:
        # creation / truncation happen now, exactly when they really would
        REAL_OPEN(file, mode, buffering, encoding, errors, newline, closefd, opener).close()
    finally:
        st.busy -= 1
    ev["done"] = True
    return SimFile(st, path, mode, encoding, newline, ev)


def install_open_seam():
    if builtins.open is not sim_open:
        builtins.open = sim_open
        io.open = sim_open


def uninstall_open_seam():
    builtins.open = REAL_OPEN
    io.open = REAL_OPEN


# ------------------------------------------------------------------------------------------ S2
_W_FLAGS = os.O_WRONLY | os.O_RDWR | os.O_CREAT | os.O_TRUNC | os.O_APPEND
_DIR_EVENTS = {
    "os.mkdir": "mkdir", "os.rmdir": "rmdir", "os.remove": "remove", "os.rename": "rename",
    "os.listdir": "listdir", "os.scandir": "scandir", "os.truncate": "truncate", "os.chmod": "chmod",
    "os.utime": "utime", "os.link": "link", "os.symlink": "symlink", "os.replace": "rename",
}
_SPAWN_EVENTS = frozenset((
    "os.system", "os.exec", "os.posix_spawn", "os.spawn", "os.fork", "os.forkpty", "subprocess.Popen",
    "os.startfile", "pty.spawn", "os.kill", "os.killpg", "os.putenv", "os.unsetenv",
))
_hook_installed = [False]


def _frame_origin(skip_prefixes=("<frozen importlib", "importlib")):
    """(filename, lineno, funcname) of the nearest frame that is not the import machinery / this file."""
    f = sys._getframe(2)
    here = __file__
    while f is not None:
        fn = f.f_code.co_filename
        if fn != here and not fn.startswith("<frozen importlib") and "/importlib/" not in fn:
            return fn, f.f_lineno, f.f_code.co_name
        f = f.f_back
    return None, 0, None


def _audit(event, args):
    st = CUR
    if st is None or not st.active or st.busy:
        return
    if event == "open":
        path, mode, flags = args[0], args[1], args[2]
        if isinstance(path, int):
            return
        writing = bool(flags & _W_FLAGS) if isinstance(flags, int) else any(c in (mode or "") for c in "wax+")
        ap = _abspath(path)
        if ap is None:
            return
        if writing:
            # a write-mode open that did not go through the open seam (os.open, a bound alias, ...)
            st.busy += 1
            try:
                st.log("open_raw_w", ap, site=cdd_site(), mode=mode, flags=flags)
            finally:
                st.busy -= 1
            if not st.world.contains(ap):
                raise PermissionError(_errno.EACCES, "[sim] raw write outside the simulated world refused", ap)
        elif st.monitor and st.world.contains(ap):
            st.busy += 1
            try:
                fn, ln, fu = _frame_origin()
                st.log("open_raw_r", ap, site=cdd_site(), via="%s:%s" % (fn, fu))
            finally:
                st.busy -= 1
        return
    kind = _DIR_EVENTS.get(event)
    if kind is not None:
        path = args[0]
        if isinstance(path, int) or path is None:
            return
        ap = _abspath(path)
        if ap is None:
            return
        inside = st.world.contains(ap)
        if not inside and kind in ("listdir", "scandir"):
            return
        st.busy += 1
        try:
            extra = {}
            if kind == "rename" and len(args) > 1:
                extra["dst"] = _abspath(args[1])
            ev = st.log(kind, ap, site=cdd_site(), **extra)
        finally:
            st.busy -= 1
        if st.crashed:
            raise SimCrash("dir op after crash")
        flt = st.fault_for(ev)
        if flt is not None:
            raise _oserror(flt.get("errno", "EACCES"), ap)
        if not inside and kind in MUTATING:
            raise PermissionError(_errno.EACCES, "[sim] mutation outside the simulated world refused", ap)
        return
    if event in _SPAWN_EVENTS or event.startswith("socket.") or event.startswith("urllib.") \
            or event.startswith("ctypes.dlopen") or event.startswith("http.") or event.startswith("ftplib.") \
            or event.startswith("smtplib.") or event.startswith("webbrowser."):
        st.busy += 1
        try:
            fn, ln, fu = _frame_origin()
            st.log("spawn" if event in _SPAWN_EVENTS else "net", repr(args)[:200], site=cdd_site(),
                   event=event, origin="%s:%d" % (fn, ln))
        finally:
            st.busy -= 1
        if event in _SPAWN_EVENTS or event.startswith("socket."):
            raise PermissionError(_errno.EPERM, "[sim] %s refused" % event)
        return
    if not st.monitor:
        return
    if event == "import":
        st.busy += 1
        try:
            fn, ln, fu = _frame_origin()
            st.log("import", args[0], site=cdd_site(), origin="%s:%d" % (fn, ln), origin_file=fn)
        finally:
            st.busy -= 1
    elif event == "exec":
        code = args[0]
        st.busy += 1
        try:
            fn, ln, fu = _frame_origin()
            ev = st.log("exec", getattr(code, "co_filename", "?"), site=cdd_site(),
                        origin="%s:%d" % (fn, ln), origin_file=fn)
            ev["code"] = code   # kept in memory only; stripped before serialisation
        finally:
            st.busy -= 1
    elif event == "compile":
        src, filename = args[0], args[1]
        st.busy += 1
        try:
            fn, ln, fu = _frame_origin()
            if isinstance(src, bytes):
                try:
                    src = src.decode("utf-8", "replace")
                except Exception:
                    src = repr(src)
            st.log("compile", filename if isinstance(filename, str) else repr(filename), site=cdd_site(),
                   origin="%s:%d" % (fn, ln), origin_file=fn,
                   src=(src[:200] if isinstance(src, str) else None))
        finally:
            st.busy -= 1


def install_audit_seam():
    if not _hook_installed[0]:
        sys.addaudithook(_audit)
        _hook_installed[0] = True


def begin(world, plan=None, monitor=False, clock=None):
    """Activate the seams for one operation."""
    global CUR
    install_open_seam()
    install_audit_seam()
    st = SeamState(world, plan, monitor)
    st.clock = clock
    CUR = st
    st.active = True
    return st


def end(st):
    global CUR
    st.active = False
    # an operation that died may leave files open; a real process exit closes them (data persists
    # unless the process crashed)
    for f in list(st.open_files):
        try:
            f.close()
        except BaseException:
            pass
    CUR = None


def public_events(events):
    """Events as JSON-able dicts (drops in-memory payloads)."""
    out = []
    for ev in events:
        d = {k: v for k, v in ev.items() if k != "code"}
        out.append(d)
    return out
