"""Self-tests of the machinery (DESIGN.md §6): determinism of the harness and fidelity of the stubs.

./check selftest [--checks C07,C20] [--seeds 3] [--scale 0.1]

Determinism: every (check, seed) is run in four separate processes — twice with the default hash seed and 16
workers, once with 1..2 workers, once in an interpreter with PYTHONHASHSEED=12345 — and the digests are
compared: PLANDIGEST must agree in all four, DIGEST (outcomes) in the three that share hash seed 0.
Fidelity: SimFile vs pass-through on fault-free doctrans/exmod runs (equal world snapshots).
"""
import argparse
import os
import subprocess
import sys
import time

from . import PYTHON, VERIF

ALL = ("C07", "C10", "C11", "C12", "C13", "C16", "C17", "C18", "C19", "C20")


def _digests(check, seed, scale, workers=16, hashseed="0"):
    env = dict(os.environ, CDDSIM_HASHSEED=hashseed, PYTHONHASHSEED=hashseed, PYTHONDONTWRITEBYTECODE="1",
               VERIF_WORKERS=str(workers))
    p = subprocess.run([PYTHON, os.path.join(VERIF, "cddsim_main.py"), check, "--tier", "quick", "--seed", str(seed),
                        "--scale", str(scale), "--digest-only", "--workers", str(workers)],
                       stdout=subprocess.PIPE, stderr=subprocess.STDOUT, text=True, env=env, cwd=VERIF, timeout=3600)
    d = {}
    for ln in p.stdout.splitlines():
        if ln.startswith("DIGEST ") or ln.startswith("PLANDIGEST "):
            k, v = ln.split()
            d[k] = v
    d["rc"] = p.returncode
    if "DIGEST" not in d:
        d["out"] = p.stdout[-800:]
    return d


def fidelity():
    """SimFile vs a real file: the same fault-free commands with the open seam in pass-through mode must leave
    the same world."""
    import cddsim
    cddsim.ensure_repo_on_path()
    from . import ops, proc, seams
    from .world import SimWorld
    proc.import_all()
    src = 'def f(a, b=1):\n    """\n    Do it.\n\n    :param a: first\n    :type a: ```int```\n    """\n    return a\n'
    bad = 0
    for fmt in ("rest", "google", "numpydoc"):
        snaps = []
        for passthrough in (False, True):
            w = SimWorld(tag="fid")
            w.write_files({"m.py": src})
            op = {"cmd": "cli", "argv": ["doctrans", "--filename", "{ROOT}/m.py", "--format", fmt, "--type-annotations"]}
            if passthrough:
                import cdd.__main__
                old = os.getcwd()
                os.chdir(w.root)
                try:
                    seams.uninstall_open_seam()
                    cdd.__main__.main(ops.subst(op["argv"], w))
                finally:
                    os.chdir(old)
            else:
                ops.invoke(w, op)
            snaps.append({k: v[:3] for k, v in w.snapshot().items()})
            w.destroy()
        if snaps[0] != snaps[1]:
            bad += 1
            print("FIDELITY MISMATCH doctrans %s: %s vs %s" % (fmt, snaps[0], snaps[1]))
    print("fidelity: SimFile vs pass-through on doctrans x3 formats: %s" % ("ok" if not bad else "%d mismatches" % bad))
    return bad


def main(argv):
    ap = argparse.ArgumentParser(prog="check selftest")
    ap.add_argument("--checks", default=",".join(ALL))
    ap.add_argument("--seeds", type=int, default=2)
    ap.add_argument("--first-seed", type=int, default=100)
    ap.add_argument("--scale", type=float, default=0.1)
    args = ap.parse_args(argv)
    bad = 0
    t0 = time.time()
    for check in args.checks.split(","):
        if not os.path.exists(os.path.join(VERIF, "checks", check.lower() + ".py")):
            print("selftest: %s not built yet, skipped" % check)
            continue
        for s in range(args.first_seed, args.first_seed + args.seeds):
            a = _digests(check, s, args.scale)
            b = _digests(check, s, args.scale)
            c = _digests(check, s, args.scale, workers=2)
            d = _digests(check, s, args.scale, hashseed="12345")
            ok_plan = len({x.get("PLANDIGEST") for x in (a, b, c, d)}) == 1 and a.get("PLANDIGEST")
            ok_out = len({x.get("DIGEST") for x in (a, b, c)}) == 1 and a.get("DIGEST")
            note = "" if d.get("DIGEST") == a.get("DIGEST") else " (outcome digest differs under PYTHONHASHSEED=12345: " \
                                                                  "information only — that is C10's subject)"
            print("selftest %s seed=%d plan=%s outcome=%s%s" % (check, s, "same" if ok_plan else "DIFFERS",
                                                              "same" if ok_out else "DIFFERS", note))
            if not ok_plan or not ok_out:
                bad += 1
                print("   ", a, b, c, d)
            sys.stdout.flush()
    bad += fidelity()
    print("selftest finished in %.0fs: %s" % (time.time() - t0, "OK" if not bad else "%d PROBLEMS" % bad))
    return 0 if not bad else 2
