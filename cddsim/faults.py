"""Fault plans (DESIGN.md §2.2).  A plan is plain JSON so that it can live in a replay file.

io fault    {"seam": "io", "at": j, "kind": "err"|"crash", "errno": "ENOSPC", "keep": int|float}
            fires at the j-th faultable seam call of the operation (open_r, read, open_w, close_w,
            mkdir, listdir, ...).  "err" means "this call fails with errno"; for close_w the first
            `keep` characters are persisted before the error is raised.
line fault  {"seam": "line", "k": k, "exc": "RuntimeError"|..., "file": ..., "line": ...}
            the k-th cdd line event of the operation raises exc (handled by clock.StepClock).
Faults are one-shot.
"""


class FaultPlan(object):
    def __init__(self, faults=()):
        self.faults = [dict(f) for f in faults]
        self.fired = []
        self._io = {}
        for f in self.faults:
            if f.get("seam", "io") == "io":
                self._io[int(f["at"])] = f

    def on_io(self, ev):
        f = self._io.pop(ev["io"], None)
        if f is None:
            return None
        rec = {"seam": "io", "at": ev["io"], "kind": f.get("kind", "err"), "event": ev["kind"],
               "path": ev["path"], "site": ev.get("site")}
        if "errno" in f:
            rec["errno"] = f["errno"]
        self.fired.append(rec)
        return f

    def line_fault(self):
        for f in self.faults:
            if f.get("seam") == "line":
                return f
        return None

    def to_json(self):
        return [dict(f) for f in self.faults]

    @property
    def empty(self):
        return not self.faults
