"""SimWorld: the simulated project directory (a private tmpfs tree) with snapshots and checkpoints."""
import hashlib
import os
import shutil
import stat

from . import SHM
from .seams import REAL_OPEN as open  # the harness itself never goes through the open seam

_counter = [0]


def fresh_root(tag="w"):
    """A new empty directory in tmpfs, unique per process and call."""
    _counter[0] += 1
    root = os.path.join(SHM, "cddsim-%d-%s%d" % (os.getpid(), tag, _counter[0]))
    if os.path.exists(root):
        shutil.rmtree(root)
    os.makedirs(root)
    return os.path.realpath(root)


def sweep(pid=None):
    """Remove every scratch world of this process."""
    pid = os.getpid() if pid is None else pid
    prefix = "cddsim-%d-" % pid
    try:
        names = os.listdir(SHM)
    except OSError:
        return
    for n in names:
        if n.startswith(prefix):
            shutil.rmtree(os.path.join(SHM, n), ignore_errors=True)


def sweep_dead():
    """Remove scratch worlds left behind by processes that no longer exist (killed workers)."""
    try:
        names = os.listdir(SHM)
    except OSError:
        return
    for n in names:
        if not n.startswith("cddsim-"):
            continue
        try:
            pid = int(n.split("-")[1])
        except (IndexError, ValueError):
            continue
        if not os.path.exists("/proc/%d" % pid):
            shutil.rmtree(os.path.join(SHM, n), ignore_errors=True)


class SimWorld(object):
    """A directory tree plus helpers.  All paths handed out are absolute and real."""

    def __init__(self, root=None, tag="w"):
        self.root = fresh_root(tag) if root is None else os.path.realpath(root)
        os.makedirs(self.root, exist_ok=True)

    # ---------------------------------------------------------------- basic
    def p(self, rel):
        return os.path.join(self.root, rel)

    def rel(self, path):
        ap = os.path.abspath(path)
        if ap == self.root:
            return "."
        if ap.startswith(self.root + os.sep):
            return ap[len(self.root) + 1:]
        return None

    def contains(self, path):
        ap = os.path.abspath(path)
        return ap == self.root or ap.startswith(self.root + os.sep)

    def write_files(self, files):
        """files: {rel: text | bytes | None}; None makes a directory."""
        for rel in sorted(files):
            content = files[rel]
            full = self.p(rel)
            if content is None:
                os.makedirs(full, exist_ok=True)
                continue
            os.makedirs(os.path.dirname(full), exist_ok=True)
            data = content.encode("utf-8") if isinstance(content, str) else content
            with open(full, "wb") as f:
                f.write(data)

    def read(self, rel):
        try:
            with open(self.p(rel), "rb") as f:
                return f.read().decode("utf-8", "surrogateescape")
        except (FileNotFoundError, IsADirectoryError, NotADirectoryError):
            return None

    def read_bytes(self, rel):
        try:
            with open(self.p(rel), "rb") as f:
                return f.read()
        except (FileNotFoundError, IsADirectoryError, NotADirectoryError):
            return None

    def exists(self, rel):
        return os.path.lexists(self.p(rel))

    def remove(self, rel):
        full = self.p(rel)
        if os.path.isdir(full) and not os.path.islink(full):
            shutil.rmtree(full)
        elif os.path.lexists(full):
            os.unlink(full)

    def destroy(self):
        shutil.rmtree(self.root, ignore_errors=True)

    # ------------------------------------------------------------ snapshots
    def snapshot(self, with_mtime=False, sub="."):
        """{rel: (type, size, sha256, mode[, mtime_ns])} for everything below root (or root/sub)."""
        out = {}
        base = self.root if sub == "." else self.p(sub)
        if not os.path.lexists(base):
            return out
        stack = [base]
        while stack:
            d = stack.pop()
            try:
                names = sorted(os.listdir(d))
            except NotADirectoryError:
                names = []
            for n in names:
                full = os.path.join(d, n)
                rel = full[len(self.root) + 1:]
                st = os.lstat(full)
                if stat.S_ISDIR(st.st_mode):
                    ent = ("d", 0, "", stat.S_IMODE(st.st_mode))
                    stack.append(full)
                elif stat.S_ISLNK(st.st_mode):
                    ent = ("l", 0, os.readlink(full), 0)
                else:
                    with open(full, "rb") as f:
                        data = f.read()
                    ent = ("f", len(data), hashlib.sha256(data).hexdigest(), stat.S_IMODE(st.st_mode))
                if with_mtime:
                    ent = ent + (st.st_mtime_ns,)
                out[rel] = ent
        return out

    @staticmethod
    def diff(a, b):
        """(created, modified, deleted) as sorted lists of rel paths."""
        created = sorted(k for k in b if k not in a)
        deleted = sorted(k for k in a if k not in b)
        modified = sorted(k for k in a if k in b and a[k] != b[k])
        return created, modified, deleted

    @staticmethod
    def digest(snap):
        h = hashlib.sha256()
        for k in sorted(snap):
            h.update(repr((k, snap[k][:4])).encode())
        return h.hexdigest()[:16]

    # ---------------------------------------------------------- checkpoints
    def checkpoint(self):
        """Full copy of the tree in memory: {rel: (bytes|None, mode, mtime_ns)}."""
        cp = {}
        for rel, ent in self.snapshot().items():
            full = self.p(rel)
            st = os.lstat(full)
            if ent[0] == "d":
                cp[rel] = (None, stat.S_IMODE(st.st_mode), st.st_mtime_ns)
            elif ent[0] == "f":
                with open(full, "rb") as f:
                    cp[rel] = (f.read(), stat.S_IMODE(st.st_mode), st.st_mtime_ns)
        return cp

    def restore(self, cp):
        """Bring the tree back to a checkpoint, including mtimes (same absolute paths)."""
        now = self.snapshot()
        for rel in sorted(now, key=lambda r: -r.count(os.sep)):
            if rel not in cp or (cp[rel][0] is None) != (now[rel][0] == "d"):
                self.remove(rel)
        for rel in sorted(cp):
            data, mode, mtime = cp[rel]
            full = self.p(rel)
            if data is None:
                os.makedirs(full, exist_ok=True)
            else:
                cur = None
                if os.path.isfile(full):
                    with open(full, "rb") as f:
                        cur = f.read()
                if cur != data:
                    os.makedirs(os.path.dirname(full), exist_ok=True)
                    with open(full, "wb") as f:
                        f.write(data)
            os.chmod(full, mode)
        for rel in sorted(cp, key=lambda r: -r.count(os.sep)):
            os.utime(self.p(rel), ns=(cp[rel][2], cp[rel][2]))
