"""S3 — the step seam: a virtual clock counting cdd line events, and exception injection at the
k-th line event (DESIGN.md §2.1).  Simulated time never reads the wall clock."""
import sys

from . import CDD_DIR, CDD_TESTS_DIR, REPO


class BudgetExceeded(BaseException):
    """The operation used more simulated steps than its budget (C11)."""


class InjectedError(RuntimeError):
    """A synthetic failure delivered at a line event."""


class InjectedBaseError(BaseException):
    """A synthetic BaseException (neither Exception nor KeyboardInterrupt)."""


EXC = {
    "RuntimeError": InjectedError,
    "MemoryError": MemoryError,
    "KeyboardInterrupt": KeyboardInterrupt,
    "RecursionError": RecursionError,
    "OSError": lambda msg: OSError(5, "[sim] " + msg),
    "BaseException": InjectedBaseError,
}


class StepClock(object):
    __slots__ = ("steps", "budget", "inject_k", "inject_exc", "inject_expect", "tail", "_tail_n",
                 "track", "sites", "fired", "mismatch", "_codes", "trace_sites", "site_at",
                 "with_exits", "_with_seen", "_with_lines")

    def __init__(self, budget=None, inject=None, track=False, tail=0, site_at=None, with_exits=False):
        self.steps = 0
        self.budget = budget
        self.inject_k = None
        self.inject_exc = None
        self.inject_expect = None
        if inject is not None:
            self.inject_k = int(inject["k"])
            self.inject_exc = inject.get("exc", "RuntimeError")
            if inject.get("file") is not None:
                self.inject_expect = (inject["file"], int(inject["line"]))
        self.tail = []
        self._tail_n = tail
        self.track = track
        self.sites = {} if track else None      # (file, line) -> count
        self.site_at = {} if site_at else None  # k -> (file, line) for requested ks
        if site_at:
            for k in site_at:
                self.site_at[int(k)] = None
        self.fired = None
        self.mismatch = None
        self._codes = {}
        # k of every line event that is the re-visit of a `with` header when its block is left normally:
        # the only thing that can fail there is __exit__ itself, which the I/O seam models (close_err)
        self.with_exits = [] if with_exits else None
        self._with_seen = {}
        self._with_lines = {}

    # ------------------------------------------------------------------
    def start(self):
        sys.settrace(self._global)

    def stop(self):
        sys.settrace(None)

    def _global(self, frame, event, arg):
        code = frame.f_code
        ok = self._codes.get(code)
        if ok is None:
            fn = code.co_filename
            ok = fn.startswith(CDD_DIR) and not fn.startswith(CDD_TESTS_DIR)
            self._codes[code] = ok
        return self._local if ok else None

    def _is_with_line(self, code, lineno):
        key = (code, lineno)
        r = self._with_lines.get(key)
        if r is None:
            import linecache
            src = linecache.getline(code.co_filename, lineno).lstrip()
            r = src.startswith("with ") or src.startswith("async with ")
            self._with_lines[key] = r
        return r

    def _local(self, frame, event, arg):
        if event != "line":
            if event == "return" and self.with_exits is not None:
                self._with_seen.pop(id(frame), None)
            return self._local
        self.steps = k = self.steps + 1
        if self.with_exits is not None and self._is_with_line(frame.f_code, frame.f_lineno):
            seen = self._with_seen.setdefault(id(frame), set())
            if frame.f_lineno in seen:
                self.with_exits.append(k)
            else:
                seen.add(frame.f_lineno)
        if self.track:
            key = (frame.f_code.co_filename, frame.f_lineno)
            self.sites[key] = self.sites.get(key, 0) + 1
        if self.site_at is not None and k in self.site_at:
            self.site_at[k] = (frame.f_code.co_filename[len(REPO) + 1:], frame.f_lineno)
        if self._tail_n:
            t = self.tail
            t.append((frame.f_code.co_filename[len(REPO) + 1:], frame.f_lineno))
            if len(t) > self._tail_n:
                del t[0]
        if k == self.inject_k:
            here = (frame.f_code.co_filename[len(REPO) + 1:], frame.f_lineno)
            self.fired = {"seam": "line", "k": k, "exc": self.inject_exc, "file": here[0], "line": here[1]}
            if self.inject_expect is not None and self.inject_expect != here:
                self.mismatch = {"expected": list(self.inject_expect), "got": list(here)}
            exc = EXC[self.inject_exc]
            sys.settrace(None)
            raise exc("injected at %s:%d (step %d)" % (here[0], here[1], k))
        if self.budget is not None and k > self.budget:
            sys.settrace(None)
            raise BudgetExceeded("budget %d exceeded" % self.budget)
        return self._local
