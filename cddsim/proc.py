"""S4 — the process seam: in-process restart (purge of sys.modules) and real child interpreters."""
import importlib
import json
import os
import pkgutil
import subprocess
import sys

from . import PYTHON, REPO, VERIF, ensure_repo_on_path


def public_modules():
    """Every non-test module of the package under test, from the working tree, sorted."""
    out = []
    base = os.path.join(REPO, "cdd")
    for dirpath, dirnames, filenames in os.walk(base):
        dirnames[:] = sorted(d for d in dirnames if d not in ("tests", "__pycache__"))
        rel = os.path.relpath(dirpath, REPO)
        pkg = rel.replace(os.sep, ".")
        for fn in sorted(filenames):
            if not fn.endswith(".py"):
                continue
            if fn == "__init__.py":
                out.append(pkg)
            else:
                out.append(pkg + "." + fn[:-3])
    return sorted(set(out))


def purge(prefixes=("cdd",)):
    """In-process restart: forget every module of the SUT (and of simulated user packages)."""
    dead = [m for m in sys.modules
            if any(m == p or m.startswith(p + ".") for p in prefixes)]
    for m in sorted(dead):
        del sys.modules[m]
    importlib.invalidate_caches()
    return len(dead)


def import_all(skip=("cdd.__main__",)):
    """Warm-up: import every public module so that later step counts do not include first-import
    lines (DESIGN.md §2.8).  Failures are ignored here (C18 is the property that judges them)."""
    ensure_repo_on_path()
    n = 0
    for m in public_modules():
        try:
            importlib.import_module(m)
            n += 1
        except BaseException:
            pass
    return n


def child_env(hashseed=0, extra=None):
    env = dict(os.environ)
    env["PYTHONHASHSEED"] = str(hashseed)
    env["PYTHONDONTWRITEBYTECODE"] = "1"
    env["CDDSIM_REPO"] = REPO
    env["PYTHONPATH"] = VERIF + os.pathsep + REPO
    env.pop("PYTHONSTARTUP", None)
    if extra:
        env.update(extra)
    return env


def run_child(script_args, stdin_text=None, hashseed=0, timeout=300, extra_env=None):
    """Run ``PYTHON <script_args>`` in a fresh interpreter with a chosen hash seed."""
    p = subprocess.run([PYTHON] + list(script_args), input=stdin_text, stdout=subprocess.PIPE,
                       stderr=subprocess.PIPE, text=True, timeout=timeout,
                       env=child_env(hashseed, extra_env), cwd=VERIF)
    return p.returncode, p.stdout, p.stderr
