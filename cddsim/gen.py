"""Workload generators (DESIGN.md §2.4): Hypothesis strategies that draw *specs* (plain JSON) and
renderers that turn specs into text.  No renderer calls a cdd emitter: inputs are built independently
of the system under test."""
import keyword

from hypothesis import strategies as st

# ----------------------------------------------------------------------------------- vocabulary
PARAM_NAMES = (
    "alpha", "beta", "count", "size", "label", "mode", "rate", "depth", "width", "flag", "limit",
    "offset", "title", "level", "scale", "index", "total", "key", "span", "ratio", "seed_value",
    "batch", "epochs", "verbose", "shuffle", "momentum", "window", "stride", "axis", "dim",
)
FUNC_NAMES = ("compute", "transform", "load_data", "build", "run_job", "fit", "make_plan", "resolve", "collect")
CLASS_NAMES = ("Config", "Settings", "Loader", "Model", "Trainer", "Options", "Pipeline", "Record")
# prose free of the documented type-hint trigger shapes ("number", "whether", "list of", "X or Y",
# "X of Y", type names, "default", back-ticks, slashes)
WORDS = (
    "the", "first", "second", "big", "small", "thing", "amount", "used", "for", "output", "input",
    "when", "running", "stage", "main", "extra", "shown", "kept", "target", "source", "worker",
    "record", "entry", "marker", "signal", "during", "setup", "applied", "later", "before", "each",
    "pass", "final", "result", "chosen", "given", "step", "long", "short",
    # a few non-ASCII words: files are read and written in text mode, byte-level slips only show with these
    "naïve", "größe", "µm",
)
RESERVED = frozenset(("return_type", "self", "cls", "argument_parser", "kwargs", "args")) | frozenset(keyword.kwlist)

SIMPLE_TYPES = ("int", "float", "str", "bool")


def ident(pool):
    return st.sampled_from(pool)


def sentence(min_words=2, max_words=5, terminal=st.sampled_from(("", "."))):
    return st.builds(
        lambda ws, t: (" ".join(ws)).capitalize() + t,
        st.lists(st.sampled_from(WORDS), min_size=min_words, max_size=max_words), terminal)


def default_for(typ):
    """Strategy of python-literal *source text* for a default of this type (None = no default)."""
    base = typ
    optional = False
    if typ.startswith("Optional[") and typ.endswith("]"):
        base = typ[len("Optional["):-1]
        optional = True
    if base == "int":
        s = st.integers(-9, 120).map(repr)
    elif base == "float":
        s = st.sampled_from(("0.5", "1.25", "-2.0", "0.001", "3.0"))
    elif base == "str":
        s = st.sampled_from(("'a'", "'mnist'", "'x_y'", "'left'", "'~/data'"))
    elif base == "bool":
        s = st.sampled_from(("True", "False"))
    elif base.startswith("Literal["):
        inner = base[len("Literal["):-1]
        s = st.sampled_from(tuple(x.strip() for x in inner.split(",")))
    else:
        s = st.just("None")
    if optional:
        s = st.one_of(st.just("None"), s)
    return s


@st.composite
def param_spec(draw, name, types=None, allow_no_default=True, force_default=False, doc=True):
    types = types or (SIMPLE_TYPES + ("Optional[int]", "Optional[str]", "Optional[float]",
                                      "Literal['a', 'b']", "Literal['np', 'tf', 'jax']"))
    typ = draw(st.sampled_from(types))
    has_default = force_default or draw(st.booleans()) or not allow_no_default
    default = draw(default_for(typ)) if has_default else None
    return {"name": name, "typ": typ, "default": default,
            "doc": draw(sentence()) if doc else ""}


@st.composite
def interface_spec(draw, name=None, min_params=0, max_params=6, types=None, returns=None, suffix_defaults=True,
                   names=PARAM_NAMES, optional_needs_default=False):
    """An interface description in the common representable domain (DESIGN.md §2.4)."""
    n = draw(st.integers(min_params, max_params))
    pnames = draw(st.lists(st.sampled_from(names), min_size=n, max_size=n, unique=True))
    n_default = draw(st.integers(0, n)) if suffix_defaults else None
    params = []
    for i, pn in enumerate(pnames):
        if suffix_defaults:
            force = i >= n - n_default
            p = draw(param_spec(pn, types=types, allow_no_default=not force, force_default=force))
            if not force:
                p["default"] = None
                if optional_needs_default and p["typ"].startswith("Optional["):
                    # keep the suffix rule: a parameter before the defaults suffix cannot be Optional here
                    p["typ"] = p["typ"][len("Optional["):-1]
        else:
            p = draw(param_spec(pn, types=types))
        params.append(p)
    want_ret = draw(st.booleans()) if returns is None else returns
    ret = None
    if want_ret:
        ret = {"typ": draw(st.sampled_from(SIMPLE_TYPES)), "doc": draw(sentence())}
    return {"name": name or draw(st.sampled_from(FUNC_NAMES)), "doc": draw(sentence(3, 7)),
            "params": params, "returns": ret}


# ------------------------------------------------------------------------------------ renderers
def _ind(lines, indent):
    return [(indent + ln) if ln else ln for ln in lines]


def render_docstring_lines(spec, style="rest", with_types=True, params_kind="param", extra_params=()):
    """Body lines of a docstring (no quotes, no indentation) in one of the three styles."""
    params = list(extra_params) + list(spec["params"])
    out = [spec["doc"]] if spec.get("doc") else []
    ret = spec.get("returns")
    if style == "rest":
        if params or ret:
            out.append("")
        for i, p in enumerate(params):
            out.append(":%s %s: %s" % (params_kind, p["name"], p["doc"]))
            if with_types and p.get("typ") and params_kind == "param":
                out.append(":type %s: ```%s```" % (p["name"], p["typ"]))
            if params_kind == "param" and (i + 1 < len(params) or ret):
                out.append("")
        if ret:
            out.append(":return: %s" % ret["doc"])
            if with_types and ret.get("typ"):
                out.append(":rtype: ```%s```" % ret["typ"])
    elif style == "google":
        if params:
            out += ["", "Args:"]
            for p in params:
                if with_types and p.get("typ"):
                    out.append("  %s (%s): %s" % (p["name"], p["typ"], p["doc"]))
                else:
                    out.append("  %s: %s" % (p["name"], p["doc"]))
        if ret:
            out += ["", "Returns:"]
            if with_types and ret.get("typ"):
                out += ["  %s:" % ret["typ"], "   %s" % ret["doc"]]
            else:
                out.append("  %s" % ret["doc"])
    elif style == "numpydoc":
        if params:
            out += ["", "Parameters", "----------"]
            for p in params:
                if with_types and p.get("typ"):
                    out.append("%s : %s" % (p["name"], p["typ"]))
                else:
                    out.append("%s" % p["name"])
                out.append("  %s" % p["doc"])
        if ret:
            out += ["", "Returns", "-------"]
            out.append("return_type : %s" % ret["typ"] if (with_types and ret.get("typ")) else "return_type")
            out.append("  %s" % ret["doc"])
    else:
        raise ValueError(style)
    return out


def render_docstring(spec, style="rest", indent="    ", **kw):
    lines = render_docstring_lines(spec, style, **kw)
    body = "\n".join(_ind(lines, indent))
    return '%s"""\n%s\n%s"""' % (indent, body, indent)


def render_signature(spec, annotate=True, first=None, star_args=None, kwonly=(), star_kwargs=None):
    parts = []
    if first:
        parts.append(first)
    for p in spec["params"]:
        s = p["name"]
        if annotate and p.get("typ"):
            s += ": " + p["typ"]
            if p.get("default") is not None:
                s += " = " + p["default"]
        elif p.get("default") is not None:
            s += "=" + p["default"]
        parts.append(s)
    if star_args:
        parts.append("*" + star_args)
    elif kwonly:
        parts.append("*")
    for p in kwonly:
        s = p["name"]
        if annotate and p.get("typ"):
            s += ": " + p["typ"]
            if p.get("default") is not None:
                s += " = " + p["default"]
        elif p.get("default") is not None:
            s += "=" + p["default"]
        parts.append(s)
    if star_kwargs:
        parts.append("**" + star_kwargs)
    return ", ".join(parts)


def render_function(spec, style="rest", annotate=False, doc_types=True, indent="", first=None, body=None,
                    decorators=(), is_async=False, doc=True):
    """A def with (optionally) a docstring.  Types live either in the signature or in the docstring."""
    inner = indent + "    "
    sig = render_signature(spec, annotate=annotate, first=first)
    ret = spec.get("returns")
    arrow = " -> %s" % ret["typ"] if (annotate and ret and ret.get("typ")) else ""
    lines = ["%s@%s" % (indent, d) for d in decorators]
    lines.append("%s%sdef %s(%s)%s:" % (indent, "async " if is_async else "", spec["name"], sig, arrow))
    if doc:
        lines.append(render_docstring(spec, style, indent=inner, with_types=doc_types))
    if body is None:
        body = ["return None"] if not ret else ["return %s" % _zero(ret.get("typ"))]
    lines += _ind(body, inner)
    return "\n".join(lines) + "\n"


def _zero(typ):
    return {"int": "0", "float": "0.0", "str": "''", "bool": "False"}.get(typ, "None")


def render_class(spec, bases="object", indent="", doc=True, extra_body=()):
    """A class whose annotated attributes carry the interface (cdd's `class` shape)."""
    inner = indent + "    "
    lines = ["%sclass %s(%s):" % (indent, spec["name"], bases) if bases else "%sclass %s:" % (indent, spec["name"])]
    if doc:
        cspec = dict(spec)
        params = list(spec["params"])
        if spec.get("returns"):
            params = params + [{"name": "return_type", "doc": spec["returns"]["doc"], "typ": spec["returns"]["typ"]}]
        cspec = {"doc": spec["doc"], "params": params, "returns": None}
        body = render_docstring_lines(cspec, "rest", with_types=False, params_kind="cvar")
        lines.append('%s"""\n%s"""' % (inner, "\n".join(_ind(body, inner))))
        lines.append("")
    for p in spec["params"]:
        if p.get("default") is not None:
            lines.append("%s%s: %s = %s" % (inner, p["name"], p["typ"], p["default"]))
        else:
            lines.append("%s%s: %s" % (inner, p["name"], p["typ"]))
    if spec.get("returns"):
        lines.append("%sreturn_type: %s = %s" % (inner, spec["returns"]["typ"], _zero(spec["returns"]["typ"])))
    if not spec["params"] and not spec.get("returns") and not extra_body:
        lines.append("%spass" % inner)
    lines += _ind(list(extra_body), inner)
    return "\n".join(lines) + "\n"


def render_argparse(spec, indent=""):
    """A `set_cli_args(argument_parser)` function (cdd's `argparse_function` shape)."""
    inner = indent + "    "
    lines = ["%sdef %s(argument_parser):" % (indent, spec["name"])]
    lines.append('%s"""' % inner)
    lines += _ind(["Set CLI arguments", "", ":param argument_parser: argument parser",
                   ":type argument_parser: ```ArgumentParser```", "",
                   ":return: argument_parser", ":rtype: ```ArgumentParser```"], inner)
    lines.append('%s"""' % inner)
    lines.append("%sargument_parser.description = %r" % (inner, spec["doc"]))
    for p in spec["params"]:
        kws = []
        typ = p.get("typ")
        base = typ
        if typ and typ.startswith("Optional["):
            base = typ[len("Optional["):-1]
        if base and base.startswith("Literal["):
            # the literal may be written as a tuple, a list or a set (spec["choices_form"]): all three are what
            # people write for `choices=`
            inner_lit = base[len("Literal["):-1]
            kws.append({"list": "choices=[%s]", "set": "choices={%s}"}.get(spec.get("choices_form"), "choices=(%s,)") % inner_lit)
        elif base and base != "str":
            kws.append("type=%s" % base)
        kws.append("help=%r" % p["doc"])
        if p.get("default") is not None and p["default"] != "None":
            kws.append("required=True")
            kws.append("default=%s" % p["default"])
        elif typ and not typ.startswith("Optional[") and p.get("default") is None:
            kws.append("required=True")
        lines.append("%sargument_parser.add_argument(%r, %s)" % (inner, "--" + p["name"], ", ".join(kws)))
    lines.append("%sreturn argument_parser" % inner)
    return "\n".join(lines) + "\n"
