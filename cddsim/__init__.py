"""cddsim — deterministic simulation with fault injection for offscale/cdd-python.

The system under test (every line of ``cdd``) runs unmodified inside one process; this package
owns the seams through which it meets the world: ``builtins.open`` (S1), audit events (S2),
line events (S3), ``sys.modules`` / child interpreters (S4), stdio (S5).  See /verif/DESIGN.md §2.
"""
import os
import sys

REPO = os.path.realpath(os.environ.get("CDDSIM_REPO", "/repo"))
VERIF = os.path.dirname(os.path.dirname(os.path.abspath(__file__)))
CDD_DIR = os.path.join(REPO, "cdd") + os.sep
CDD_TESTS_DIR = os.path.join(REPO, "cdd", "tests") + os.sep
PYTHON = "/venv/bin/python"
SHM = "/dev/shm"


def ensure_repo_on_path():
    """Make ``import cdd`` resolve to the working tree under test (never a copy, never installed)."""
    if not sys.path or sys.path[0] != REPO:
        if REPO in sys.path:
            sys.path.remove(REPO)
        sys.path.insert(0, REPO)
    sys.dont_write_bytecode = True
