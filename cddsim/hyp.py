"""Seeded search with shrinking: Hypothesis outside pytest (DESIGN.md §2.3, §2.6).

``explore`` draws plans from a strategy, runs ``simulate(plan)`` (the whole simulated history, real
code, faults included) and, when an unknown violation appears, lets Hypothesis shrink the plan
*while the same violation class persists*.  The only entropy is the integer seed.
"""
import time

from hypothesis import HealthCheck, Phase, given, seed as hseed, settings
from hypothesis import errors as herrors

from .runner import class_key, match_known, merge_stats, stable_hash


class _Fail(Exception):
    pass


class SimResult(object):
    """What one simulated run returns."""
    __slots__ = ("violations", "digest", "plan_digest", "nontrivial", "stats", "sample", "trace")

    def __init__(self):
        self.violations = []      # [{"clause","detail","sig"}]
        self.digest = None        # outcome digest
        self.plan_digest = None
        self.nontrivial = False
        self.stats = {}
        self.sample = None
        self.trace = None         # concretised plan (what a replay file executes)


SHRINKING = [False]   # simulate() may consult this to skip expensive side-exploration while shrinking


def cold_reset(simulate):
    """In-process restart of the system under test between two simulated runs: forget every cdd module (module-level
    caches, mutable defaults, registries die with them) and tell the check to warm up again."""
    from . import proc
    proc.purge(("cdd",))
    w = getattr(simulate, "__globals__", {}).get("_warm")
    if isinstance(w, list) and w:
        w[0] = False
    wrapped = getattr(simulate, "__wrapped_globals__", None)
    if wrapped is not None:
        w = wrapped.get("_warm")
        if isinstance(w, list) and w:
            w[0] = False


def explore(strategy, simulate, seed, n_examples, known, batch=40, deadline_s=None, max_classes=4,
            max_shrink_runs=120, max_shrink_s=30.0):
    """Returns {"stats","violations","digests","plan_digests","nontrivial","samples"}."""
    out = {"stats": {"runs": 0, "shrink_runs": 0, "seeds": [seed]}, "violations": [], "digests": [],
           "plan_digests": [], "nontrivial": [], "samples": []}
    ignore = set()
    final_seen = set()
    prev_holder = [None]
    recent, recent_all = [], []
    t0 = time.time()
    done = 0
    b = 0
    while done < n_examples and len(ignore) < max_classes:
        if deadline_s is not None and time.time() - t0 > deadline_s:
            out["stats"]["stopped_by_deadline"] = 1
            break
        b += 1
        n = min(batch, n_examples - done)
        state = {"target": None, "last": None, "n": 0, "shrinks": 0, "t_shrink": None, "best": None,
                 "prev_plan": prev_holder[0], "warm": None}

        def test(plan):
            if state["target"] is not None:
                # bounded shrinking: when the budget is used up, only the best plan so far still fails,
                # so Hypothesis finishes at once with that plan as its minimal example
                if state["t_shrink"] is None:
                    state["t_shrink"] = time.time()
                state["shrinks"] += 1
                if state["shrinks"] > max_shrink_runs or time.time() - state["t_shrink"] > max_shrink_s:
                    if stable_hash(plan) == state["best"]:
                        raise _Fail(state["target"])
                    return
            SHRINKING[0] = state["target"] is not None
            try:
                if state["target"] is not None and state.get("mode") in ("cold", "warm"):
                    # shrink under exactly the conditions the replay file will have: a cold system, then (warm mode) the
                    # recorded preceding history, then the candidate
                    cold_reset(simulate)
                    if state["mode"] == "warm":
                        for prev in state["prefix"]:
                            try:
                                simulate(prev)
                            except BaseException:
                                pass
                res = simulate(plan)
            finally:
                SHRINKING[0] = False
            if state["target"] is None:
                state["warm"] = state["prev_plan"]      # what ran in this process just before this plan
                state["prev_plan"] = plan
                prev_holder[0] = plan
                recent[:] = (recent_all + [])[-3:]      # the up-to-3 plans that ran before this one
                recent_all.append(plan)
                del recent_all[:-4]
                state["n"] += 1
                out["stats"]["runs"] += 1
                merge_stats(out["stats"], res.stats)
                out["digests"].append(res.digest)
                out["plan_digests"].append(res.plan_digest)
                if res.nontrivial:
                    out["nontrivial"].append(res.digest)
                if res.sample is not None and len(out["samples"]) < 3:
                    out["samples"].append(res.sample)
            else:
                out["stats"]["shrink_runs"] += 1
            unknown = []
            for v in res.violations:
                if v.get("final"):
                    # already concrete (e.g. found by in-run fault enumeration): reported as is, not shrunk
                    if state["target"] is None and match_known(known, v) is None and class_key(v) not in final_seen:
                        final_seen.add(class_key(v))
                        fv = dict(v)
                        fv["trace"] = dict(fv.get("trace") or res.trace or {}, seed=seed)
                        out["violations"].append(fv)
                    continue
                e = match_known(known, v)
                if e is not None:
                    if state["target"] is None:
                        kf = out["stats"].setdefault("known_seen", {})
                        kf[e["id"]] = kf.get(e["id"], 0) + 1
                    continue
                if class_key(v) in ignore:
                    continue
                unknown.append(v)
            if not unknown:
                return
            if state["target"] is None:
                key0 = class_key(unknown[0])
                # does it reproduce from a cold system?  If not: after the preceding 1..3 histories?  (state leaking
                # between runs inside one process: caches, mutable defaults)
                mode, prefix = "deep", []
                try:
                    SHRINKING[0] = True
                    cold_reset(simulate)
                    if any(class_key(x) == key0 for x in simulate(plan).violations):
                        mode = "cold"
                    else:
                        for k_ in (1, 2, 3):
                            cand = [p_ for p_ in recent[-k_:]]
                            if len(cand) < k_:
                                break
                            cold_reset(simulate)
                            for prev in cand:
                                try:
                                    simulate(prev)
                                except BaseException:
                                    pass
                            if any(class_key(x) == key0 for x in simulate(plan).violations):
                                mode, prefix = "warm", cand
                                break
                finally:
                    SHRINKING[0] = False
                state["mode"], state["prefix"] = mode, prefix
                out["stats"]["discovery_" + mode] = out["stats"].get("discovery_" + mode, 0) + 1
                state["target"] = key0
                state["warm_at_discovery"] = prefix if mode == "warm" else None
                pick = unknown[0]
            else:
                same = [v for v in unknown if class_key(v) == state["target"]]
                if not same:
                    return
                pick = same[0]
            pick = dict(pick)
            pick["trace"] = res.trace
            state["last"] = pick
            state["best"] = stable_hash(plan)
            raise _Fail(state["target"])

        test = _bind(test, state)
        runner = hseed(seed * 7919 + b)(settings(
            max_examples=n, database=None, deadline=None, derandomize=False,
            phases=(Phase.generate, Phase.shrink), report_multiple_bugs=False,
            suppress_health_check=list(HealthCheck), print_blob=False,
        )(given(strategy)(test)))
        try:
            runner()
        except _Fail:
            v = state["last"]
            v["trace"] = dict(v["trace"] or {})
            v["trace"]["seed"] = seed
            if state.get("warm_at_discovery"):
                # the histories that ran in this process immediately before the violation was first seen, established
                # at discovery as sufficient from a cold start; the plan was shrunk under exactly that prefix
                v["trace"]["warm_prefix"] = list(state["warm_at_discovery"])
            out["violations"].append(v)
            ignore.add(state["target"])
        except (herrors.Flaky, herrors.FlakyFailure) as e:  # the simulated run was not deterministic
            out["stats"]["flaky"] = out["stats"].get("flaky", 0) + 1
            if state["last"] is not None:
                v = state["last"]
                v["trace"] = dict(v["trace"] or {})
                v["trace"]["seed"] = seed
                v["flaky"] = True
                out["violations"].append(v)
                ignore.add(state["target"])
        except herrors.Unsatisfiable:
            pass
        done += max(state["n"], 1) if state["target"] is None else n
    return out


def _bind(fn, state):
    return fn


def digest_of(obj):
    return stable_hash(obj)
