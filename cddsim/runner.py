"""Coordinator: seeds -> workers -> violations -> confirm -> known findings -> evidence -> exit code.

A check module (``checks/cNN.py``) provides

    ID, LEVEL, RULE, ASSUMPTIONS, REAL, STUBBED          descriptive constants
    plan(tier, seed) -> [task]                           list of JSON-able task dicts (one per worker call)
    work(task) -> {"stats": {...}, "violations": [...], "samples": [...], "digests": [...],
                   "nontrivial": [...]}                  runs inside a forked worker
    replay(trace) -> [violation]                         re-executes a replay file's trace
    probes() -> [names]                                  reach probes expected to be non-zero (optional)

Violation: {"clause": "A5", "detail": "...", "sig": {...}, "trace": {...}}

Exit codes: 0 property held on everything explored; 1 VIOLATION (confirmed in a fresh interpreter);
2 harness problem (timeout, dead worker, non-reproducing failure) — never reported as 0.
"""
import concurrent.futures
import faulthandler
import hashlib
import importlib
import json
import multiprocessing
import os
import subprocess
import sys
import time
import traceback

from . import PYTHON, REPO, VERIF
from .seams import REAL_OPEN

KNOWN_FILE = os.path.join(VERIF, "known_findings.json")


# ------------------------------------------------------------------------------------------ util
def jdump(obj, path):
    tmp = path + ".tmp"
    with REAL_OPEN(tmp, "w") as f:
        json.dump(obj, f, indent=1, sort_keys=True, default=str)
        f.write("\n")
    os.replace(tmp, path)


def merge_stats(a, b):
    """Sum nested counter dicts (b into a)."""
    for k, v in b.items():
        if isinstance(v, dict):
            merge_stats(a.setdefault(k, {}), v)
        elif isinstance(v, bool):
            a[k] = bool(a.get(k, False)) or v
        elif isinstance(v, (int, float)):
            if k.startswith("envelope_max") or k.startswith("max_"):
                a[k] = max(a.get(k, 0), v)
            elif k.startswith("budget_") or k.startswith("const_"):
                a[k] = v
            else:
                a[k] = a.get(k, 0) + v
        elif isinstance(v, list):
            a.setdefault(k, [])
            a[k].extend(v)
        else:
            a[k] = v
    return a


def stable_hash(obj):
    return hashlib.sha256(json.dumps(obj, sort_keys=True, default=str).encode()).hexdigest()[:16]


def load_known(prop):
    """Entries of known_findings.json plus known_findings.d/*.json (one file per property is allowed)."""
    files = [KNOWN_FILE]
    ddir = os.path.join(VERIF, "known_findings.d")
    if os.path.isdir(ddir):
        files += [os.path.join(ddir, n) for n in sorted(os.listdir(ddir)) if n.endswith(".json")]
    out = []
    for fn in files:
        try:
            with REAL_OPEN(fn) as f:
                data = json.load(f)
        except FileNotFoundError:
            continue
        out += [e for e in data.get("findings", []) if e.get("property") == prop]
    return out


def sig_matches(entry, viol):
    """An open known finding suppresses a violation only if clause and every signature item agree."""
    if entry.get("clause") != viol.get("clause"):
        return False
    sig = viol.get("sig") or {}
    want = entry.get("signature") or {}
    if not want:
        return False
    return all(sig.get(k) == v for k, v in want.items())


def match_known(known, viol):
    for e in known:
        if e.get("status") == "open" and sig_matches(e, viol):
            return e
    return None


def class_key(viol):
    return "%s|%s" % (viol.get("clause"), json.dumps(viol.get("sig") or {}, sort_keys=True))


# ---------------------------------------------------------------------------------------- worker
def _worker(modname, task):
    faulthandler.enable()
    faulthandler.dump_traceback_later(task.get("_timeout", 1500), exit=True)
    cov = _reach_start()
    try:
        mod = importlib.import_module(modname)
        t0 = time.time()
        res = mod.work(task)
        res["wall"] = time.time() - t0
        res["task"] = {k: v for k, v in task.items() if not k.startswith("_")}
        return res
    except BaseException:
        return {"error": traceback.format_exc(), "task": task}
    finally:
        faulthandler.cancel_dump_traceback_later()
        if cov is not None:
            cov.stop()
            cov.save()
        from .world import sweep
        sweep()


def _reach_start():
    """Reach measurement (tools/reach.py; off unless CDDSIM_REACH names a directory): line coverage of the cdd code
    executed by this worker, through sys.monitoring so that the step seam's sys.settrace is left alone."""
    d = os.environ.get("CDDSIM_REACH")
    if not d:
        return None
    os.environ["COVERAGE_CORE"] = "sysmon"
    import coverage
    from . import REPO
    cov = coverage.Coverage(data_file=os.path.join(d, "cov"), data_suffix=True, include=[os.path.join(REPO, "cdd", "*")],
                            omit=["*/tests/*"], config_file=False)
    cov.start()
    return cov


def _known_worker(modname, entries):
    """Replay every known/fixed entry of this property in one fresh worker process."""
    mod = importlib.import_module(modname)
    out = []
    for e in entries:
        path = os.path.join(VERIF, e["replay"])
        # every known/fixed replay starts cold: state leaking from one replay into the next (module-level caches,
        # mutable defaults) must not turn into a spurious violation of another entry
        try:
            from . import proc
            proc.purge(("cdd",))
            for attr in ("_warm",):
                w = getattr(mod, attr, None)
                if isinstance(w, list) and w:
                    w[0] = False
        except BaseException:
            pass
        try:
            with REAL_OPEN(path) as f:
                trace = json.load(f)
            viols = mod.replay(trace)
            out.append({"id": e["id"], "violations": [{k: v for k, v in x.items() if k != "trace"} for x in viols]})
        except BaseException:
            out.append({"id": e["id"], "error": traceback.format_exc()})
    from .world import sweep
    sweep()
    return out


# ------------------------------------------------------------------------------------------ main
def run_check(modname, argv):
    import argparse
    ap = argparse.ArgumentParser(prog="check " + modname)
    ap.add_argument("--tier", default=os.environ.get("VERIF_TIER", "quick"), choices=("quick", "thorough"))
    ap.add_argument("--seed", type=int, default=None)
    ap.add_argument("--workers", type=int, default=int(os.environ.get("VERIF_WORKERS", "16")))
    ap.add_argument("--replay", default=None)
    ap.add_argument("--scale", type=float, default=float(os.environ.get("VERIF_SCALE", "1")),
                    help="multiply the number of runs (soak)")
    ap.add_argument("--no-evidence", action="store_true")
    ap.add_argument("--digest-only", action="store_true", help="print the outcome digest list (determinism self-test)")
    args = ap.parse_args(argv)

    # determinism discipline: pinned hash seed, no bytecode writes into /repo
    if os.environ.get("PYTHONHASHSEED") != os.environ.get("CDDSIM_HASHSEED", "0") or \
            os.environ.get("PYTHONDONTWRITEBYTECODE") != "1":
        env = dict(os.environ)
        env["PYTHONHASHSEED"] = os.environ.get("CDDSIM_HASHSEED", "0")
        env["PYTHONDONTWRITEBYTECODE"] = "1"
        os.execve(PYTHON, [PYTHON, os.path.join(VERIF, "cddsim_main.py"), modname] + list(argv), env)

    mod = importlib.import_module(modname)
    prop = mod.ID

    if args.replay:
        return _replay_cmd(mod, args.replay)

    seed = args.seed if args.seed is not None else int(os.environ.get("VERIF_SEED", "0") or 0)
    t0 = time.time()
    print("check %s tier=%s VERIF_SEED=%d workers=%d repo=%s" % (prop, args.tier, seed, args.workers, REPO))
    sys.stdout.flush()
    known = load_known(prop)
    tasks = mod.plan(args.tier, seed, args.scale) if _takes_scale(mod.plan) else mod.plan(args.tier, seed)
    timeout = getattr(mod, "TASK_TIMEOUT", {"quick": 900, "thorough": 5400})[args.tier]
    for t in tasks:
        t["_timeout"] = timeout

    ctx = multiprocessing.get_context("fork")
    results, errors = [], []
    known_results = []
    with concurrent.futures.ProcessPoolExecutor(max_workers=args.workers, mp_context=ctx) as ex:
        kfut = ex.submit(_known_worker, modname, known) if known else None
        futs = [ex.submit(_worker, modname, t) for t in tasks]
        try:
            for f in futs:
                r = f.result(timeout=timeout + 60)
                if "error" in r:
                    errors.append(r)
                else:
                    results.append(r)
            if kfut is not None:
                known_results = kfut.result(timeout=timeout + 60)
        except (concurrent.futures.TimeoutError, concurrent.futures.process.BrokenProcessPool) as e:
            errors.append({"error": "worker pool: %r" % (e,), "task": None})
            for p in list(getattr(ex, "_processes", {}).values()):
                try:
                    p.kill()
                except Exception:
                    pass

    stats = {}
    violations, samples, digests, nontrivial = [], [], [], []
    for r in results:
        merge_stats(stats, r.get("stats", {}))
        violations.extend(r.get("violations", []))
        samples.extend(r.get("samples", [])[:2])
        digests.extend(r.get("digests", []))
        nontrivial.extend(r.get("nontrivial", []))

    if hasattr(mod, "analyse") and results and not errors:
        # cross-worker oracle (e.g. C10 compares the digests of all interpreters)
        try:
            extra = mod.analyse(tasks, results)
            merge_stats(stats, extra.get("stats", {}))
            violations.extend(extra.get("violations", []))
            samples.extend(extra.get("samples", []))
            digests.extend(extra.get("digests", []))
            nontrivial.extend(extra.get("nontrivial", []))
        except BaseException:
            errors.append({"error": "analyse: " + traceback.format_exc(), "task": None})

    if args.digest_only:
        if os.environ.get("CDDSIM_DUMP_DIGESTS"):
            with open(os.environ["CDDSIM_DUMP_DIGESTS"], "w") as f:
                json.dump([r.get("digests", []) for r in results], f)
        print("DIGEST %s" % stable_hash([r.get("digests", []) for r in results]))
        print("PLANDIGEST %s" % stable_hash([r.get("plan_digests", []) for r in results]))
        return 0 if not errors else 2

    exit_code = 0
    lines = []
    # ---- known findings and fixed regressions, replayed on every run
    kf_seen = {}
    by_id = {e["id"]: e for e in known}
    for kr in known_results:
        e = by_id[kr["id"]]
        if "error" in kr:
            errors.append({"error": "known replay %s: %s" % (kr["id"], kr["error"]), "task": None})
            continue
        if e["status"] == "open":
            hit = [v for v in kr["violations"] if sig_matches(e, v)]
            other = [v for v in kr["violations"] if not sig_matches(e, v) and not match_known(known, v)]
            if hit:
                lines.append("KNOWN-FINDING: property=%s %s — %s" % (prop, e["id"], e["summary"]))
                kf_seen[e["id"]] = kf_seen.get(e["id"], 0) + 1
            else:
                lines.append("NOTE: known finding %s no longer reproduces on this tree" % e["id"])
            for v in other:
                v = dict(v)
                v["replay_path"] = os.path.join(VERIF, e["replay"])
                violations.append(v)
        else:  # fixed: suppresses nothing; a return of the violation is reported
            for v in kr["violations"]:
                if match_known(known, v):
                    continue
                v = dict(v)
                v["replay_path"] = os.path.join(VERIF, e["replay"])
                v["regression_of"] = e["id"]
                violations.append(v)

    for kid, n in (stats.get("known_seen") or {}).items():
        kf_seen[kid] = kf_seen.get(kid, 0) + n
    # ---- exploration violations: suppress exactly the open known signatures, confirm the rest
    unknown = {}
    for v in violations:
        e = match_known(known, v)
        if e is not None:
            kf_seen[e["id"]] = kf_seen.get(e["id"], 0) + 1
            continue
        k = class_key(v)
        cur = unknown.get(k)
        if cur is None or _trace_size(v) < _trace_size(cur):
            unknown[k] = v
    nonrepro = 0
    confirmed = 0
    os.makedirs(os.path.join(VERIF, "replays"), exist_ok=True)
    for k in sorted(unknown)[:getattr(mod, "MAX_REPORT", 5)]:
        v = unknown[k]
        if "replay_path" in v:
            path = v["replay_path"]
        else:
            trace = dict(v["trace"])
            trace["property"] = prop
            trace["violation"] = {"clause": v["clause"], "detail": v["detail"], "sig": v.get("sig")}
            path = os.path.join(VERIF, "replays", "%s-%s-%s.json" % (prop, trace.get("seed", seed), stable_hash(trace)))
            jdump(trace, path)
        rc = _confirm(modname, path)
        if rc == 1:
            confirmed += 1
            lines.append("VIOLATION property=%s replay=%s" % (prop, path))
            lines.append("  clause=%s %s" % (v["clause"], v["detail"][:300]))
            exit_code = 1
        else:
            nonrepro += 1
            lines.append("HARNESS-NONREPRO property=%s replay=%s (fresh-interpreter replay rc=%s); clause=%s %s" % (
                prop, path, rc, v["clause"], v["detail"][:200]))
            if exit_code == 0:
                exit_code = 2
    for e in errors:
        msg = e["error"] or ""
        if len(msg) > 2400:
            # keep the exception itself (Hypothesis appends the whole falsifying example as a note)
            msg = msg[:1700] + "\n...\n" + msg[-600:]
        lines.append("HARNESS-ERROR property=%s %s" % (prop, msg))
        if exit_code == 0:
            exit_code = 2

    from .world import sweep_dead
    sweep_dead()
    wall = time.time() - t0
    warnings = []
    for name in (mod.probes() if hasattr(mod, "probes") else []):
        if not _get(stats, "probes", name):
            warnings.append("reach probe %r stayed at zero" % name)
    if not args.no_evidence:
        _write_evidence(mod, args, seed, stats, samples, digests, nontrivial, wall, confirmed, nonrepro,
                        kf_seen, errors, warnings, len(tasks), len(results))
    for w in warnings:
        print("WARNING: " + w)
    for ln in lines:
        print(ln)
    print("%s %s: runs=%d commands=%d faults_fired=%d distinct_outcomes=%d violations=%d known=%s wall=%.1fs -> exit %d" % (
        prop, args.tier, stats.get("runs", 0), stats.get("commands", 0),
        sum((stats.get("faults_fired") or {}).values()), len(set(digests)), confirmed,
        dict(sorted(kf_seen.items())), wall, exit_code))
    return exit_code


def _takes_scale(fn):
    import inspect
    return len(inspect.signature(fn).parameters) >= 3


def _get(d, *keys):
    for k in keys:
        if not isinstance(d, dict):
            return None
        d = d.get(k)
    return d


def _trace_size(v):
    try:
        return len(json.dumps(v.get("trace"), default=str))
    except Exception:
        return 1 << 30


def _confirm(modname, path):
    """Fresh interpreter, real CLI entry.  1 = reproduced."""
    try:
        p = subprocess.run([PYTHON, os.path.join(VERIF, "cddsim_main.py"), modname, "--replay", path],
                           stdout=subprocess.PIPE, stderr=subprocess.STDOUT, text=True, timeout=600,
                           env=dict(os.environ, PYTHONHASHSEED=os.environ.get("CDDSIM_HASHSEED", "0"),
                                    PYTHONDONTWRITEBYTECODE="1"), cwd=VERIF)
        return p.returncode
    except subprocess.TimeoutExpired:
        return "timeout"


def _replay_cmd(mod, path):
    with REAL_OPEN(path) as f:
        trace = json.load(f)
    viols = mod.replay(trace)
    warm_note = ""
    if not [v for v in viols if match_known(load_known(mod.ID), v) is None] and trace.get("warm_prefix"):
        # cold replay is clean: run the recorded preceding history in this same process first, then the plan again.
        # A violation that appears only then is real (the property is violated in a process that did other work before)
        # and is caused by state leaking between runs inside one process.
        for prev in trace["warm_prefix"]:
            try:
                mod.replay({"plan": prev, "kind": trace.get("kind")})
            except BaseException:
                pass
        viols = mod.replay(trace)
        warm_note = " [reproduces only WARM: after the recorded preceding history ran in the same process]"
    from .world import sweep
    sweep()
    want = trace.get("violation")
    known = load_known(mod.ID)
    shown = 0
    for v in viols:
        e = match_known(known, v)
        if e is not None:
            print("KNOWN-FINDING: property=%s %s — clause=%s %s" % (mod.ID, e["id"], v["clause"], v["detail"][:300]))
            continue
        same = want is None or (v["clause"] == want.get("clause"))
        # any violation that no open known finding covers counts: a replay that now fails under another clause is
        # still a violation of the property, not a harness problem
        print("%s%s clause=%s %s" % ("REPRODUCED" if same else "REPRODUCED(other clause)", warm_note, v["clause"],
                                    v["detail"][:400]))
        shown += 1
    if shown:
        print("VIOLATION property=%s replay=%s" % (mod.ID, os.path.abspath(path)))
        return 1
    print("replay of %s: no violation%s" % (path, " (recorded one did not reproduce)" if want else ""))
    return 0


def _write_evidence(mod, args, seed, stats, samples, digests, nontrivial, wall, confirmed, nonrepro, kf_seen,
                    errors, warnings, ntasks, nresults):
    runs = int(stats.get("runs", 0))
    cov = {
        "evaluations": int(stats.get("evaluations", runs)),
        "distinct_nontrivial": len(set(nontrivial)),
        "rule": mod.RULE,
        "samples": samples[:6] if samples else [{"note": "no sample recorded"}],
        "runs": runs,
        "seeds": sorted(set(stats.get("seeds", []))),
        "runs_per_hour": int(runs * 3600 / wall) if wall > 0 else 0,
        "seeds_per_hour": int(len(set(stats.get("seeds", []))) * 3600 / wall) if wall > 0 else 0,
        "simulated_steps": int(stats.get("steps", 0)),
        "simulated_time_note": "virtual time = number of cdd line events executed under the step seam; "
                               "0 where the step seam was not needed",
        "commands_executed": int(stats.get("commands", 0)),
        "faults_fired": stats.get("faults_fired", {}),
        "fault_sites": sorted(set(stats.get("fault_sites", [])))[:200],
        "fault_sites_count": len(set(stats.get("fault_sites", []))),
        "outcomes": stats.get("outcomes", {}),
        "distinct_outcome_digests": len(set(digests)),
        "distinct_world_states": len(set(stats.get("world_states", []))),
        "reach_probes": stats.get("probes", {}),
        "real_components": mod.REAL,
        "stubbed_components": mod.STUBBED,
        "known_findings_seen": kf_seen,
        "nonrepro": nonrepro,
        "harness_errors": len(errors),
        "tasks": ntasks, "tasks_completed": nresults,
        "warnings": warnings,
        "exhaustive": bool(stats.get("exhaustive", False)),
    }
    for k, v in (stats.get("extra") or {}).items():
        cov[k] = v
    ev = {
        "property_id": mod.ID, "tier": args.tier, "seed": seed, "level": mod.LEVEL, "coverage": cov,
        "assumptions": mod.ASSUMPTIONS, "wall_s": round(wall, 2), "violations": confirmed,
    }
    os.makedirs(os.path.join(VERIF, "evidence"), exist_ok=True)
    jdump(ev, os.path.join(VERIF, "evidence", "%s.json" % mod.ID))
