"""C10 child interpreter: runs a plan (JSON on stdin) of operations in order in THIS interpreter (whose
PYTHONHASHSEED the parent chose) and prints one JSON line: the digest of every operation occurrence."""
import hashlib
import io
import json
import os
import re
import shutil
import sys

HERE = os.path.dirname(os.path.dirname(os.path.abspath(__file__)))
sys.path.insert(0, HERE)
import cddsim  # noqa: E402

cddsim.ensure_repo_on_path()
from cddsim import pureops  # noqa: E402

_ADDR = re.compile(r"0x[0-9a-fA-F]+")


def norm(text, root):
    if root:
        text = text.replace(root, "<ROOT>")
    return text


def run_cmd(op, idx):
    """A command on a private copy of the project; outcome = files + stdout + outcome kind."""
    # operations carrying the same "root_tag" work at the SAME path one after the other (a project directory that is
    # converted again after an edit); all others get a path of their own
    root = os.path.realpath(os.path.join("/dev/shm", "cddsim-%d-c10-%s" % (os.getpid(), op.get("root_tag") or idx)))
    if os.path.exists(root):
        shutil.rmtree(root)
    os.makedirs(root)
    old_cwd = os.getcwd()
    old_out, old_err = sys.stdout, sys.stderr
    sink = io.StringIO()
    added_path = None
    result = {"kind": "ok"}
    try:
        for rel, text in sorted(op["files"].items()):
            full = os.path.join(root, rel)
            os.makedirs(os.path.dirname(full), exist_ok=True)
            with open(full, "w") as f:
                f.write(text)
            if op.get("mtime"):
                # timestamps preserved by the tool that put the files there (cp -p, rsync -t, tar, a checkout)
                os.utime(full, (op["mtime"], op["mtime"]))
        if op.get("sys_path"):
            added_path = os.path.join(root, op["sys_path"])
            sys.path.insert(0, added_path)
            import importlib
            importlib.invalidate_caches()
        os.chdir(root)
        sys.stdout = sys.stderr = sink
        em = sys.modules.get("cdd.compound.exmod_utils")
        if em is not None:
            em.EXMOD_OUT_STREAM = sink
        try:
            if "argv" in op:
                import cdd.__main__
                argv = [a.replace("{ROOT}", root) for a in op["argv"]]
                ret = cdd.__main__.main(argv)
            else:
                mod, _, attr = op["fn"].rpartition(".")
                import importlib
                fn = getattr(importlib.import_module(mod), attr)
                kwargs = json.loads(json.dumps(op.get("kwargs", {})).replace("{ROOT}", root))
                ret = fn(**kwargs)
            if op.get("return_is_output"):
                result["returned"] = pureops.canon(ret)
            for i_, nxt in enumerate(op.get("then", ())):
                # follow-up SDK calls in the same scratch project (e.g. openapi_bulk over the routes just generated)
                mod2, _, attr2 = nxt["fn"].rpartition(".")
                import importlib
                fn2 = getattr(importlib.import_module(mod2), attr2)
                kw2 = json.loads(json.dumps(nxt.get("kwargs", {})).replace("{ROOT}", root))
                result["then%d" % i_] = pureops.canon(fn2(**kw2))
        except BaseException as e:  # SystemExit included
            result = {"kind": "raised", "exc": type(e).__name__}
        finally:
            sys.stdout, sys.stderr = old_out, old_err
            em = sys.modules.get("cdd.compound.exmod_utils")
            if em is not None:
                em.EXMOD_OUT_STREAM = sys.stdout
        files = {}
        for dirpath, dirnames, filenames in os.walk(root):
            dirnames.sort()
            for fn_ in sorted(filenames):
                if fn_.endswith(".pyc"):
                    continue
                full = os.path.join(dirpath, fn_)
                with open(full, "rb") as f:
                    data = f.read()
                files[os.path.relpath(full, root)] = norm(data.decode("utf-8", "replace"), root)
        result["files"] = files
        result["stdout"] = norm(sink.getvalue(), root)
    finally:
        os.chdir(old_cwd)
        if added_path is not None:
            try:
                sys.path.remove(added_path)
            except ValueError:
                pass
            for m in [m for m in sys.modules if m == op.get("pkg") or m.startswith(op.get("pkg", "\0") + ".")]:
                del sys.modules[m]
        shutil.rmtree(root, ignore_errors=True)
    return result


DIR_CALLS = [0]


def install_dir_order(policy):
    """Directory-enumeration seam: the order in which os.listdir / os.scandir (and therefore os.walk, glob,
    setuptools.find_packages) return the entries of a directory is decided by the simulator instead of the file system.
    policy 1 = sorted, 2 = reverse sorted, n >= 3 = a permutation seeded by n and the set of names.  Installed before any
    cdd module is imported, so `from os import listdir` binds the seam."""
    import random
    real_listdir, real_scandir = os.listdir, os.scandir

    def permute(items, key):
        items = sorted(items, key=key)
        if policy == 2:
            items.reverse()
        elif policy >= 3:
            names = "\0".join(str(key(i)) for i in items)
            random.Random("%d:%s" % (policy, names)).shuffle(items)
        if len(items) > 1:
            DIR_CALLS[0] += 1
        return items

    def listdir(*a, **kw):
        return permute(real_listdir(*a, **kw), lambda n: n)

    class ScanDir(object):
        def __init__(self, *a, **kw):
            self._real = real_scandir(*a, **kw)
            self._it = None

        def __iter__(self):
            return self

        def __next__(self):
            if self._it is None:
                self._it = iter(permute(list(self._real), lambda e: e.name))
            return next(self._it)

        def close(self):
            self._real.close()

        def __enter__(self):
            return self

        def __exit__(self, *exc):
            self.close()
            return False

    os.listdir, os.scandir = listdir, ScanDir


def run_one(op, idx):
    if op["kind"] == "cmd":
        return run_cmd(op, idx)
    if op["kind"] == "import":
        import importlib
        try:
            importlib.import_module(op["module"])
            return {"kind": "ok"}
        except BaseException as e:
            return {"kind": "raised", "exc": type(e).__name__}
    try:
        return {"kind": "ok", "value": pureops.canon(pureops.run(op))}
    except BaseException as e:
        return {"kind": "raised", "exc": type(e).__name__}


def main():
    import warnings
    warnings.simplefilter("ignore")
    sys.dont_write_bytecode = True
    plan = json.load(sys.stdin)
    verbose = plan.get("verbose")
    if plan.get("dirorder"):
        install_dir_order(int(plan["dirorder"]))
    out = []
    for idx, item in enumerate(plan["ops"]):
        res = run_one(item["op"], idx)
        blob = json.dumps(res, sort_keys=False, default=repr)
        # two digests: with memory addresses (0x…) normalised, and raw.  A difference only in the raw digest means the
        # output embeds an object address (classified separately by the parent)
        rec = {"id": item["id"], "digest": hashlib.sha256(_ADDR.sub("0x?", blob).encode()).hexdigest()[:20],
               "raw": hashlib.sha256(blob.encode()).hexdigest()[:20], "kind": res["kind"]}
        if verbose and item["id"] in verbose:
            rec["outcome"] = res
        out.append(rec)
    sys.__stdout__.write(json.dumps({"hashseed": os.environ.get("PYTHONHASHSEED"), "dirorder": plan.get("dirorder", 0),
                                     "dir_calls_permuted": DIR_CALLS[0], "results": out}) + "\n")


if __name__ == "__main__":
    main()
