"""The in-memory operation alphabet: every public parser and emitter of cdd as a JSON-described call
(used by C10, C11 and C17).  An operation is plain JSON so that plans can cross process boundaries."""
import ast
import json
from collections import OrderedDict

EMITTERS = ("docstring", "function", "class_", "argparse_function", "json_schema", "sqlalchemy",
            "sqlalchemy_table", "sqlalchemy_hybrid", "pydantic")
SOURCE_PARSERS = ("function", "class_", "argparse_function", "sqlalchemy", "sqlalchemy_table", "sqlalchemy_hybrid",
                  "pydantic")


def ir_from_spec(spec, defaults_as_values=True):
    """InterfaceSpec (cddsim.gen) -> cdd IntermediateRepr, built without any cdd code."""
    params = OrderedDict()
    for p in spec.get("params", ()):
        d = OrderedDict()
        if p.get("doc") is not None:
            d["doc"] = p["doc"]
        if p.get("typ"):
            d["typ"] = p["typ"]
        if p.get("default") is not None:
            try:
                d["default"] = ast.literal_eval(p["default"]) if defaults_as_values else p["default"]
            except (ValueError, SyntaxError):
                d["default"] = p["default"]
            if d["default"] is None:
                d["default"] = "```None```"
        params[p["name"]] = d
    ir = OrderedDict()
    ir["name"] = spec.get("name")
    ir["doc"] = spec.get("doc", "")
    ir["params"] = params
    ret = spec.get("returns")
    if ret:
        r = OrderedDict()
        if ret.get("doc") is not None:
            r["doc"] = ret["doc"]
        if ret.get("typ"):
            r["typ"] = ret["typ"]
        ir["returns"] = OrderedDict((("return_type", r),))
    else:
        ir["returns"] = None
    ir["type"] = spec.get("type", "static")
    return ir


def canon(obj):
    """Canonical, order-preserving, JSON-able rendering of a result (order is part of the value for
    dicts and lists; a bare set has no order, so it is sorted)."""
    if isinstance(obj, ast.AST):
        try:
            return {"__ast__": ast.unparse(ast.fix_missing_locations(obj))}
        except Exception as e:  # an AST that cannot be unparsed: fall back to its dump
            return {"__astdump__": ast.dump(obj), "__unparse_error__": type(e).__name__}
    if isinstance(obj, dict):
        return {"__dict__": [[canon(k), canon(v)] for k, v in obj.items()]}
    if isinstance(obj, (list, tuple)):
        return [canon(x) for x in obj]
    if isinstance(obj, (set, frozenset)):
        return {"__set__": sorted(json.dumps(canon(x), sort_keys=True, default=repr) for x in obj)}
    if isinstance(obj, (str, int, float, bool)) or obj is None:
        return obj
    return {"__repr__": type(obj).__name__}


def _first_def(source, kinds):
    mod = ast.parse(source)
    for node in mod.body:
        if isinstance(node, kinds):
            return node
    for node in ast.walk(mod):
        if isinstance(node, kinds):
            return node
    raise ValueError("no matching definition")


def run(op):
    """Execute one in-memory operation with the real cdd code; returns the raw result."""
    kind = op["kind"]
    opts = dict(op.get("opts") or {})
    if kind == "parse_docstring":
        import cdd.docstring.parse
        return cdd.docstring.parse.docstring(op["text"], **opts)
    if kind == "parse_docstring_raw":
        import cdd.shared.docstring_parsers
        return cdd.shared.docstring_parsers.parse_docstring(op["text"], **opts)
    if kind == "emit":
        ir = ir_from_spec(op["spec"]) if "spec" in op else op["ir"]
        return emit(op["emitter"], ir, opts)
    if kind == "parse_source":
        return parse_source(op["parser"], op["source"], opts)
    if kind == "parse_emit":
        # parse a source definition, then emit it in another shape
        ir = parse_source(op["parser"], op["source"], dict(op.get("parse_opts") or {}))
        return emit(op["emitter"], ir, opts)
    if kind == "openapi_emit":
        # cdd.compound.openapi.emit.openapi on a list of (name, json-schema, route, id, crud)
        import cdd.compound.openapi.emit
        from cdd.compound.openapi.utils.emit_openapi_utils import NameModelRouteIdCrud
        return cdd.compound.openapi.emit.openapi([NameModelRouteIdCrud(*x) for x in op["entries"]])
    if kind == "docstring_roundtrip":
        import cdd.docstring.emit
        import cdd.docstring.parse
        ir = cdd.docstring.parse.docstring(op["text"], **(op.get("parse_opts") or {}))
        return cdd.docstring.emit.docstring(ir, **opts)
    if kind == "parse_route":
        # a bottle route function (decorated, with an OpenAPI YAML block in its docstring) through the routes parser
        import cdd.routes.parse.bottle
        return cdd.routes.parse.bottle.bottle(_first_def(op["source"], (ast.FunctionDef,)))
    if kind == "parse_docstring_emit":
        # a bare docstring (an interface without a name) parsed, then emitted in another shape
        import cdd.docstring.parse
        ir = cdd.docstring.parse.docstring(op["text"], **(op.get("parse_opts") or {}))
        return emit(op["emitter"], ir, opts)
    if kind == "merge_all":
        # what gen / exmod do when the output module already exists: merge the two modules, then their __all__ lists
        import cdd.shared.ast_utils
        from cdd.shared.source_transformer import to_code
        merged = cdd.shared.ast_utils.merge_modules(ast.parse(op["first"]), ast.parse(op["second"]))
        cdd.shared.ast_utils.merge_assignment_lists(merged, "__all__")
        return to_code(merged)
    raise ValueError("unknown pure op kind %r" % kind)


def emit(emitter, ir, opts):
    if emitter == "docstring":
        import cdd.docstring.emit
        return cdd.docstring.emit.docstring(ir, **opts)
    if emitter == "function":
        import cdd.function.emit
        o = {"function_name": ir.get("name") or "f", "function_type": "static"}
        o.update(opts)
        return cdd.function.emit.function(ir, **o)
    if emitter == "class_":
        import cdd.class_.emit
        return cdd.class_.emit.class_(ir, **opts)
    if emitter == "argparse_function":
        import cdd.argparse_function.emit
        return cdd.argparse_function.emit.argparse_function(ir, **opts)
    if emitter == "json_schema":
        import cdd.json_schema.emit
        return cdd.json_schema.emit.json_schema(ir, **opts)
    if emitter == "sqlalchemy":
        import cdd.sqlalchemy.emit
        return cdd.sqlalchemy.emit.sqlalchemy(ir, **opts)
    if emitter == "sqlalchemy_table":
        import cdd.sqlalchemy.emit
        return cdd.sqlalchemy.emit.sqlalchemy_table(ir, **opts)
    if emitter == "sqlalchemy_hybrid":
        import cdd.sqlalchemy.emit
        return cdd.sqlalchemy.emit.sqlalchemy_hybrid(ir, **opts)
    if emitter == "pydantic":
        import cdd.pydantic.emit
        return cdd.pydantic.emit.pydantic(ir, **opts)
    raise ValueError(emitter)


def parse_source(parser, source, opts):
    if parser == "function":
        import cdd.function.parse
        return cdd.function.parse.function(_first_def(source, (ast.FunctionDef, ast.AsyncFunctionDef)), **opts)
    if parser == "class_":
        import cdd.class_.parse
        return cdd.class_.parse.class_(_first_def(source, (ast.ClassDef,)), **opts)
    if parser == "argparse_function":
        import cdd.argparse_function.parse
        return cdd.argparse_function.parse.argparse_ast(_first_def(source, (ast.FunctionDef,)), **opts)
    if parser == "sqlalchemy":
        import cdd.sqlalchemy.parse
        return cdd.sqlalchemy.parse.sqlalchemy(_first_def(source, (ast.ClassDef,)), **opts)
    if parser == "sqlalchemy_hybrid":
        import cdd.sqlalchemy.parse
        return cdd.sqlalchemy.parse.sqlalchemy_hybrid(_first_def(source, (ast.ClassDef,)), **opts)
    if parser == "sqlalchemy_table":
        import cdd.sqlalchemy.parse
        node = _first_def(source, (ast.Assign, ast.AnnAssign, ast.Expr))
        return cdd.sqlalchemy.parse.sqlalchemy_table(node, **opts)
    if parser == "pydantic":
        import cdd.pydantic.parse
        return cdd.pydantic.parse.pydantic(_first_def(source, (ast.ClassDef,)), **opts)
    if parser == "json_schema":
        import cdd.json_schema.parse
        return cdd.json_schema.parse.json_schema(json.loads(source), **opts)
    raise ValueError(parser)


def input_size(op):
    """Size of the operation's input in characters (the n of C11's budget)."""
    n = 0
    for k in ("text", "source"):
        if k in op:
            n += len(op[k])
    if "spec" in op:
        n += len(json.dumps(op["spec"]))
    if "ir" in op:
        n += len(json.dumps(canon(op["ir"])))
    return n
