#!/usr/bin/env python3
"""Regenerate /verif/MANIFEST.json from the table below (kept as code so that it never drifts by hand)."""
import json
import os

HERE = os.path.dirname(os.path.dirname(os.path.abspath(__file__)))

NA = {
    "C01": "pure function of an in-memory interface value (emit docstring, parse back); no state, schedule, clock, I/O or effect for a simulator to control — its hash-seed/history independence is C10",
    "C02": "pure: parse(render(emit(x))) on in-memory values; nothing to schedule or fault",
    "C03": "pure composition over a list of format names; no persistent or shared state between hops",
    "C04": "pure: CPython executing emitted text is the oracle; deterministic, no seam, no fault surface",
    "C05": "pure three-way comparison of emit/parse results",
    "C06": "pure: emitted dict vs meta-schema and vs re-parse",
    "C08": "iterating a pure function on a value; repetition over files is covered where claimed (C11/C12)",
    "C09": "pure function of a string; torn files never reach the CST splitter through any command",
    "C14": "shape of a returned value; pure",
    "C15": "string-splitting identity on returned values; pure",
}

CHECKS = {}


def check(pid, level, text, note, technique, design_ref):
    CHECKS[pid] = {
        "property_id": pid,
        "quick_cmd": "timeout 900 ./check %s --tier quick" % pid,
        "thorough_cmd": "timeout 7200 ./check %s --tier thorough" % pid,
        "evidence_file": "evidence/%s.json" % pid,
        "replay_cmd_template": "./check %s --replay {path}" % pid,
        "engine": "cddsim",
        "level_claimed": {"category": level, "text": text, "design_ref": design_ref},
        "level_note": note,
        "technique": technique,
    }


check("C20", "fault_enumeration",
      "Seeded histories of exmod commands (dry/real, merge into populated output) over generated package trees run "
      "through the real CLI under the simulator's open/audit seams; the recursive world snapshot (with mtimes) and the "
      "seam log decide J1 (dry-run mutates nothing), J2 (real run stays under the output directory), J3 (source "
      "untouched) also when a fault or crash fires; on flagged trees every mutating seam call of the command is "
      "faulted once per kind. J4/J5 (valid output, __all__ closed, black/whitelist) on fault-free completed runs.",
      "Sampled trees and option combinations; faults one-shot; process-crash (not power-loss) semantics; bytecode "
      "caches excluded; J5 only for entries naming a sub-package not re-exported by a surviving package; FQN "
      "blacklist entries are a listed known finding.",
      "deterministic simulation: seeded Hypothesis histories + I/O fault and crash injection at every seam call, "
      "snapshot/seam-log oracle", "DESIGN.md §3 C20")


check("C07", "fault_enumeration",
      "Seeded modules on the simulated disk, histories of 1..3 doctrans commands through the real CLI/SDK entry. "
      "Fault-free commands are judged by A1-A4 (parses; AST identical after erasing docstrings/annotations/type "
      "comments; comment token sequence; untouched lines byte-identical). For the error clause A5 the places where a "
      "command can fail are enumerated per run: every applicable I/O error at every seam call (torn closes with three "
      "prefixes), an injected exception at the first/middle/last line event of every interval between seam calls and "
      "at every line event after the first write-mode open, plus seeded line events; the file must be byte-identical "
      "whenever the command raised.",
      "Programs and configurations are sampled; faults one-shot; A5 covers Exception subclasses, not kill/"
      "KeyboardInterrupt; re-visits of a `with` header on normal exit are not injection points (only __exit__ can fail "
      "there, modelled by the close faults); one-line defs and comments inside a rewritten header's parentheses are "
      "listed known findings.",
      "deterministic simulation: seeded Hypothesis programs + enumerated I/O faults and line-event exception "
      "injection, AST/token/byte oracle", "DESIGN.md §3 C07")

check("C11", "exploration",
      "Every operation runs under a virtual clock (count of cdd line events) with budget B0 + B1*n; token-alphabet "
      "docstrings exhaustive to length 3 (quick) / 4-5 (thorough) and seeded beyond, adversarial prose through all nine "
      "emitters, truncated (torn-write) inputs, and doctrans applied 1..3 times to its own output on the simulated disk.",
      "Decides non-termination and gross blow-ups (25x measured envelope), not the asymptotic class; C-level hangs only "
      "by a 120 s wall backstop.",
      "deterministic simulation: virtual step clock (sys.settrace line events) with budget, exhaustive+seeded inputs, "
      "repeated-application histories", "DESIGN.md §3 C11")


check("C10", "exploration",
      "Differential simulation across real interpreters: a seeded set of operations (parsers on partially / permuted "
      "documented signatures, all emitters, the file commands on private project copies) is run in K fresh interpreters "
      "with K different PYTHONHASHSEED values (incl. 'random'), K different seeded call histories with repetitions and "
      "a directory-listing policy each (os.listdir/os.scandir return entries in the file system's own, sorted, reversed "
      "or a seeded order: the directory-order seam); every occurrence of an operation must hash to the same canonical "
      "outcome (order-preserving; files, return value and printed output). Disagreements are reduced to two "
      "interpreters, classified as directory-order, hash-seed or call-history dependence, and the preceding calls are "
      "delta-debugged.",
      "Inputs, seeds, histories and listing orders are sampled; for raising operations only the exception type is "
      "compared.",
      "deterministic simulation: multi-interpreter differential over hash seeds x seeded call histories x directory "
      "listing orders", "DESIGN.md §3 C10")

check("C18", "exploration",
      "Import histories after a simulated interpreter restart: every module as first import in a real fresh interpreter "
      "(exhaustive, both tiers); every ordered pair in both orders (exhaustive, both tiers) after a fork-based restart "
      "(a parent that never imports cdd forks one child per history) with H1 (imports succeed) and H2 (same public names "
      "bound in every loaded cdd module in either order), a sample cross-checked in real interpreters; seeded longer "
      "histories in two permutations. Failing histories are minimised and confirmed in real interpreters.",
      "The forked child is a stand-in for a fresh interpreter with the third-party modules already loaded (validated "
      "against real interpreters in every run); histories longer than two are sampled.",
      "deterministic simulation: interpreter-restart model, exhaustive singles/pairs + seeded import histories",
      "DESIGN.md §3 C18")


check("C12", "fault_enumeration",
      "Project machine: three files whose named targets start present/absent/empty/missing, histories of sync --truth X "
      "through the real CLI, user edits, restarts, one I/O fault or crash at a rehearsed seam call in about half of the "
      "histories followed by seeded user recovery. After every fault-free sync: B1 files parse; B2 every target, parsed by "
      "cdd's matching parser, equals the truth's parse (names, order, types, defaults, descriptions), and what cdd reads out of a truth the "
      "simulated user wrote verbatim equals the spec it was written from; B3 truth unchanged; "
      "B4 AST outside the targets unchanged; B5 an identical second and third sync are byte-identical; B6 (always, also "
      "under faults) nothing but the listed files is created or written; B7 after recovery one sync re-establishes B1-B4 "
      "and the next one B5. On flagged plans every seam call of the last sync is faulted once per kind (error, crash, torn "
      "close), with B6 and recovery+convergence judged after each.",
      "Common representable interface domain; eight listed known findings delimit regions of B2/B5/B1 by narrow "
      "signatures (existing function/argparse targets are never rewritten; lossy argparse/function default cells; method "
      "targets emitted at top level; appended targets not in normal form / glued to a last line without newline); cdd's "
      "own parsers are the reader for B2/B3, as the statement words it (the truth's read is cross-checked against the "
      "harness's own spec); descriptions are compared up to whitespace (word-wrap is a documented re-flow).",
      "deterministic simulation: Hypothesis project histories + rehearsed I/O faults/crashes + recovery and convergence, "
      "reference comparison via the matching parser", "DESIGN.md §3 C12")


check("C19", "fault_enumeration",
      "Project machine for gen: generated input mappings (1..5 classes / functions / argparse functions, or a JSON-schema "
      "file) x parse kind x eight emit kinds x name templates x import inference x prepend / imports-from-file; histories: "
      "gen on absent output, gen on the present output (must refuse), gen after a faulted gen (I/O error, torn close, "
      "crash at a rehearsed seam call) that left a torso, user deletion, --phase 1|2, restart. I1 compiles, I2 one symbol "
      "per entry named by the template, I3 __all__ exactly those names, I4 read-back interface (class/function/argparse "
      "output), I5 inferred imports bind every typing/SQLAlchemy name; always: I6 existing output refused with bytes, mtime "
      "and seam log untouched, I7 nothing but the output path is written; on flagged plans every seam call of a gen is "
      "faulted once per kind (error, crash, torn close) and I7 + 'gen again on the torso refuses' are judged after each.",
      "Sampled matrix; a gen that raises without writing is a refusal (most cells of the matrix refuse today), recorded in "
      "the evidence, not a violation; I4 not asserted for SQLAlchemy/JSON/pydantic output; argparse default cells are a "
      "listed known finding.",
      "deterministic simulation: Hypothesis histories over persistent output state + rehearsed I/O faults/crashes, "
      "seam-log and snapshot oracle, read-back via the matching parser", "DESIGN.md §3 C19")


check("C13", "exploration",
      "Input and output modules (own renderer: classes with annotated attributes, functions/methods with 1..5 parameters, "
      "defaults, self/cls, keyword-only, *args/**kwargs) on the simulated disk; histories of 1..3 sync_properties CLI "
      "commands with 1..2 pairs over all valid dotted paths, wrap template and --input-eval on/off, black present/absent, a "
      "rehearsed I/O fault / torn close / crash on ~30% of commands, every seam call of the last command enumerated on "
      "flagged plans, all-pairs sweeps. D1 (always) input byte-identical and never opened for writing; D2 output parses; D3 "
      "the selected location equals the one-location reference model; D4 everything else ast.dump-identical and the "
      "parameter->default map unchanged; D5 (always) no other path written.",
      "Sampled programs and pairs; attribute values lenient as in the design (statement is silent); listed known findings "
      "delimit regions by machine-computed structural predicates (right-aligned defaults index, name-blind function lookup, "
      "wrap applied in place, module docstring re-indented, stale _location).",
      "deterministic simulation: Hypothesis histories + rehearsed/enumerated I/O faults, AST-diff against a one-location "
      "reference model, seam-log effect monitor", "DESIGN.md §3 C13")

check("C16", "exploration",
      "Routes machine: generated SQLAlchemy models (explicit/inferred PK, single/multi-word names, 1..6 columns), routes "
      "file(s) initially absent; histories of 1..6 gen_routes CLI commands (CRUD subsets, route prefixes, app names) with "
      "openapi_bulk after each; reference model R = union of requested (model, op); error/torn-close/crash faults on the "
      "write/append of the routes file with user restore. E0 only the named routes file is written; E1 JSON-serialisable; "
      "E2 every $ref resolves; E3 request bodies defined; E4 path parameters declared; E5 operations exactly R; E6 every "
      "route function keeps its decorator; E7 schema lists exactly the model's columns.",
      "Sampled histories; multi-word-name handling is no stronger than sampling; F-C16-2 (title-cased schema key) is a "
      "listed known finding; an operation already held in one routes file is never requested into a second one.",
      "deterministic simulation: Hypothesis upsert histories over a persistent routes file + append faults, reference "
      "model of requested operations", "DESIGN.md §3 C16")

check("C17", "exploration",
      "Effect monitor at the simulator's seams under an adversarial workload: payloads (calls, dunder chains, imports, "
      "evaluator-global names, side-effecting module code) in defaults, type strings, prose, decorators, aimed at "
      "sentinels (files, env var, harness attribute); every parser/emitter (incl. the JSON-schema parser over $ref URLs and the routes parser over YAML blocks "
      "with python tags) and doctrans, sync, sync_properties, gen-from-file, with black present or absent (an executable "
      "named black first on PATH), "
      "run under the audit seam, a third of them again with an injected exception or I/O error so error paths run. "
      "Always: G1 no spawn/network event; G2 no import requested by input-derived code or of a payload module; G3 no "
      "exec of input-derived code containing a call, import or dunder attribute; G4 write-mode opens within the declared "
      "outputs (seam log and snapshot); G5 sentinels untouched. --input-eval and gen --prepend exempted only for the text "
      "the user passed.",
      "Sampled adversarial inputs; 'input-derived' is decided from code-object file names and requesting frames; the "
      "monitor sees what CPython audits (open, import, exec, compile, os.system, subprocess, socket, ...).",
      "deterministic simulation: audit-hook/open-seam effect monitor under seeded adversarial inputs with fault and "
      "exception injection", "DESIGN.md §3 C17")


def main():
    man = {
        "version": 1,
        "setup_cmd": "sh tools/setup.sh",
        "hooks": {
            "guard": "CDD_VERIF",
            "enable": "no hook exists in /repo: every seam (builtins.open, audit events, line events, sys.modules, "
                      "child interpreters) is taken from outside by /verif/cddsim; checks import cdd from /repo's "
                      "working tree (CDDSIM_REPO overrides the path)",
            "baseline_off_cmd": "python3 tools/baseline_check.py",
            "source_commits": [],
            "add_only": True,
        },
        "engines": [{
            "name": "cddsim", "path": "cddsim/",
            "serves_properties": sorted(CHECKS),
            "kind_free_text": "deterministic single-process simulator: open seam with buffered SimFile, audit-hook "
                              "monitor and directory-fault seam, line-event virtual clock and exception injection, "
                              "in-process restart and child interpreters; Hypothesis-seeded histories with shrinking; "
                              "replay files confirmed in a fresh interpreter",
        }],
        "checks": [CHECKS[k] for k in sorted(CHECKS)],
        "not_applicable": [{"property_id": k, "reason": v} for k, v in sorted(NA.items())]
        + [{"property_id": k, "reason": v} for k, v in sorted(PENDING.items()) if k not in CHECKS],
        "notes": "See DESIGN.md. Known findings and fixed defects: known_findings.json (+ known/*.json replays). "
                 "Seeded breaking changes used to test the checks: seeded/<id>/.",
    }
    with open(os.path.join(HERE, "MANIFEST.json"), "w") as f:
        json.dump(man, f, indent=1)
        f.write("\n")
    print("MANIFEST.json: %d checks, %d not applicable" % (len(man["checks"]), len(man["not_applicable"])))


PENDING = {}

if __name__ == "__main__":
    main()
