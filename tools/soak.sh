#!/bin/sh
# usage: tools/soak.sh "<checks>" <first-seed> <last-seed> [tier]   — runs every check for every seed, no evidence written
CHECKS="$1"; A="$2"; B="$3"; TIER="${4:-quick}"
cd "$(dirname "$0")/.."
for s in $(seq "$A" "$B"); do
  for c in $CHECKS; do
    OUT=$(timeout 3000 ./check "$c" --tier "$TIER" --seed "$s" --no-evidence 2>&1)
    RC=$?
    echo "SOAK $c seed=$s rc=$RC $(echo "$OUT" | tail -1)"
    if [ "$RC" != "0" ]; then echo "$OUT" | grep -E "VIOLATION|clause=|HARNESS|WARNING" | head -20; fi
  done
done
