#!/bin/sh
# usage: tools/mkmut.sh <out.diff> <file> <python-expr transforming s>   e.g. 's.replace("a","b")'
# Makes a unified diff (against /repo HEAD) of one textual edit, without touching /repo.
set -e
OUT="$1"; FILE="$2"; EXPR="$3"
D="/dev/shm/mkmut-$$"; rm -rf "$D"; mkdir -p "$D/a/$(dirname "$FILE")" "$D/b/$(dirname "$FILE")"
git -C /repo show "HEAD:$FILE" > "$D/a/$FILE"
python3 - "$D/a/$FILE" "$D/b/$FILE" "$EXPR" <<'PY'
import sys
s = open(sys.argv[1]).read()
t = eval(sys.argv[3], {"s": s})
assert t != s, "edit did not change the file"
open(sys.argv[2], "w").write(t)
PY
( cd "$D" && diff -u "a/$FILE" "b/$FILE" > "$OUT" || true )
rm -rf "$D"
grep -c '^[-+]' "$OUT" >/dev/null && echo "wrote $OUT"
