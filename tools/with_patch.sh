#!/bin/sh
# usage: tools/with_patch.sh <patch.diff> <check args...>
# Runs ./check against a scratch copy of /repo (in tmpfs) with the patch applied; removes the copy afterwards.
# Evidence files are not touched (--no-evidence).
set -e
PATCH="$(realpath "$1")"; shift
HERE="$(cd "$(dirname "$0")/.." && pwd)"
D="/dev/shm/mutrepo-$$"
rm -rf "$D"; mkdir -p "$D"
git -C /repo archive HEAD | tar -x -C "$D"
( cd "$D" && git init -q . >/dev/null 2>&1 && git apply --whitespace=nowarn "$PATCH" )
set +e
CDDSIM_REPO="$D" "$HERE/check" "$@" --no-evidence
RC=$?
rm -rf "$D"
exit $RC
