#!/usr/bin/env python3
"""Run the repository's pinned baseline (guard OFF) and compare with /root/.vp/BASELINE.json.

Exit 0 iff every test of BASELINE.stable_pass passes.  Usage: baseline_check.py [repo_dir]
"""
import json
import os
import subprocess
import sys
import tempfile
import xml.etree.ElementTree as ET

repo = sys.argv[1] if len(sys.argv) > 1 else "/repo"
base = json.load(open("/root/.vp/BASELINE.json"))
stable = set(base["stable_pass"])
fd, junit = tempfile.mkstemp(suffix=".junit.xml", dir="/dev/shm")
os.close(fd)
env = {k: v for k, v in os.environ.items() if k != "CDD_VERIF"}
env["PYTHONDONTWRITEBYTECODE"] = "1"
try:
    p = subprocess.run(
        ["/venv/bin/python", "-m", "pytest", "-q", "-p", "no:cacheprovider", "--timeout=900",
         "--continue-on-collection-errors", "--junitxml=" + junit],
        cwd=repo, env=env, stdout=subprocess.PIPE, stderr=subprocess.STDOUT, text=True)
    passed = set()
    failed = set()
    for tc in ET.parse(junit).getroot().iter("testcase"):
        tid = "%s::%s" % (tc.get("classname"), tc.get("name"))
        bad = any(ch.tag in ("failure", "error", "skipped") for ch in tc)
        (failed if bad else passed).add(tid)
finally:
    os.unlink(junit)
missing = sorted(stable - passed)
print("baseline: %d stable tests, %d passed now, %d other-pass, %d failing-now" % (
    len(stable), len(stable & passed), len(passed - stable), len(failed)))
if missing:
    print("STABLE TESTS NOT PASSING:")
    for m in missing:
        print("  ", m)
    print(p.stdout[-3000:])
    sys.exit(1)
print("OK")
