#!/usr/bin/env python3
"""Re-run the property's check against an already verified seeded change and refresh meta.json's record of it.

usage: tools/recheck_seeded.py <seeded-id> [--checks C07,C11] [--tier quick] [--seeds 0,1]

The patch is applied to a scratch copy of /repo HEAD in tmpfs (never to /repo); the copy is removed afterwards.
"""
import json
import os
import shutil
import subprocess
import sys
import time

VERIF = os.path.dirname(os.path.dirname(os.path.abspath(__file__)))


def sh(cmd, **kw):
    p = subprocess.run(cmd, stdout=subprocess.PIPE, stderr=subprocess.STDOUT, text=True, **kw)
    return p.returncode, p.stdout


def main():
    sid = sys.argv[1]
    args = sys.argv[2:]
    d = os.path.join(VERIF, "seeded", sid)
    meta = json.load(open(os.path.join(d, "meta.json")))
    checks = [meta.get("property", sid.split("-")[0]).upper()]
    tier = "quick"
    seeds = ["0", "1"]
    for i, a in enumerate(args):
        if a == "--checks":
            checks = args[i + 1].split(",")
        if a == "--tier":
            tier = args[i + 1]
        if a == "--seeds":
            seeds = args[i + 1].split(",")
    scratch = "/dev/shm/seeded-%d" % os.getpid()
    shutil.rmtree(scratch, ignore_errors=True)
    os.makedirs(scratch)
    rec = meta.setdefault("verification", {})
    rec.setdefault("checks", {})
    try:
        subprocess.check_call("git -C /repo archive HEAD | tar -x -C %s" % scratch, shell=True)
        subprocess.check_call(["git", "init", "-q", "."], cwd=scratch)
        rc, out = sh(["git", "apply", "--whitespace=nowarn", os.path.join(d, "patch.diff")], cwd=scratch)
        if rc != 0:
            print("patch does not apply:", out[-400:])
            sys.exit(2)
        for c in checks:
            caught = None
            runs = []
            for s in seeds:
                t0 = time.time()
                rc, out = sh([os.path.join(VERIF, "check"), c, "--tier", tier, "--seed", s, "--no-evidence"],
                             env=dict(os.environ, CDDSIM_REPO=scratch), cwd=VERIF)
                lines = [ln for ln in out.splitlines() if ln.startswith("VIOLATION") or ln.startswith("  clause=")
                         or ln.startswith("HARNESS")]
                runs.append({"seed": s, "rc": rc, "wall_s": round(time.time() - t0, 1), "lines": lines[:6],
                             "last": out.splitlines()[-1] if out.splitlines() else ""})
                if rc == 1:
                    caught = s
                    break
            rec["checks"][c] = {"caught": caught is not None, "seed": caught, "tier": tier, "runs": runs,
                                "rechecked_at": time.strftime("%Y-%m-%dT%H:%M:%SZ", time.gmtime()),
                                "verif_head": sh(["git", "-C", VERIF, "rev-parse", "--short", "HEAD"])[1].strip()}
    finally:
        shutil.rmtree(scratch, ignore_errors=True)
    with open(os.path.join(d, "meta.json"), "w") as f:
        json.dump(meta, f, indent=1)
    print(json.dumps({"id": sid, "checks": {k: (v["caught"], v["seed"]) for k, v in rec["checks"].items()}}))
    for c in checks:
        for r in rec["checks"][c]["runs"]:
            print("   ", c, "seed", r["seed"], "rc", r["rc"], r["wall_s"], "s", r["lines"][:2])


if __name__ == "__main__":
    main()
