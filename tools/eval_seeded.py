#!/usr/bin/env python3
"""Verify an independently written breaking change and run our check against it.

usage: tools/eval_seeded.py <dir with patch.diff demo.py meta.json> <seeded-id> [--checks C07,C11] [--tier quick]
                            [--seeds 0,1] [--keep-only-if-valid]

1. scratch copy of /repo HEAD in tmpfs; demo must PASS on it
2. apply patch.diff; demo must FAIL; the pinned baseline must still pass (tools/baseline_check.py)
3. run ./check <property> against the patched copy (CDDSIM_REPO), for each seed until one reports a VIOLATION
4. copy patch.diff, demo.py, meta.json (+ "verification" record) to /verif/seeded/<seeded-id>/
The scratch copy is removed afterwards.  Nothing is applied to /repo.
"""
import json
import os
import shutil
import subprocess
import sys
import time

VERIF = os.path.dirname(os.path.dirname(os.path.abspath(__file__)))
PY = "/venv/bin/python"


def sh(cmd, **kw):
    p = subprocess.run(cmd, stdout=subprocess.PIPE, stderr=subprocess.STDOUT, text=True, **kw)
    return p.returncode, p.stdout


def main():
    src = os.path.abspath(sys.argv[1])
    sid = sys.argv[2]
    args = sys.argv[3:]
    meta = json.load(open(os.path.join(src, "meta.json")))
    checks = [meta.get("property", sid.split("-")[0]).upper()]
    tier = "quick"
    seeds = ["0", "1"]
    for i, a in enumerate(args):
        if a == "--checks":
            checks = args[i + 1].split(",")
        if a == "--tier":
            tier = args[i + 1]
        if a == "--seeds":
            seeds = args[i + 1].split(",")
    scratch = "/dev/shm/seeded-%d" % os.getpid()
    shutil.rmtree(scratch, ignore_errors=True)
    os.makedirs(scratch)
    rec = {"at": time.strftime("%Y-%m-%dT%H:%M:%SZ", time.gmtime()), "repo_head": sh(["git", "-C", "/repo", "rev-parse",
                                                                                      "--short", "HEAD"])[1].strip()}
    try:
        subprocess.check_call("git -C /repo archive HEAD | tar -x -C %s" % scratch, shell=True)
        env = dict(os.environ, PYTHONPATH=scratch, PYTHONDONTWRITEBYTECODE="1")
        rc, out = sh(["timeout", "900", PY, os.path.join(src, "demo.py")], env=env, cwd="/tmp")
        rec["demo_clean"] = {"rc": rc, "tail": out[-300:]}
        subprocess.check_call(["git", "init", "-q", "."], cwd=scratch)
        rc, out = sh(["git", "apply", "--whitespace=nowarn", os.path.join(src, "patch.diff")], cwd=scratch)
        rec["patch_applies"] = rc == 0
        if rc != 0:
            rec["patch_error"] = out[-400:]
        rc, out = sh(["timeout", "900", PY, os.path.join(src, "demo.py")], env=env, cwd="/tmp")
        rec["demo_patched"] = {"rc": rc, "tail": out[-400:]}
        rc, out = sh(["python3", os.path.join(VERIF, "tools", "baseline_check.py"), scratch])
        rec["baseline_with_patch"] = {"rc": rc, "tail": out[-200:]}
        rec["valid"] = rec["demo_clean"]["rc"] == 0 and rec["patch_applies"] and rec["demo_patched"]["rc"] != 0 and rc == 0
        rec["checks"] = {}
        if rec["valid"]:
            for c in checks:
                caught = None
                runs = []
                for s in seeds:
                    t0 = time.time()
                    rc, out = sh([os.path.join(VERIF, "check"), c, "--tier", tier, "--seed", s, "--no-evidence"],
                                 env=dict(os.environ, CDDSIM_REPO=scratch), cwd=VERIF)
                    lines = [ln for ln in out.splitlines() if ln.startswith("VIOLATION") or ln.startswith("  clause=")
                             or ln.startswith("HARNESS")]
                    runs.append({"seed": s, "rc": rc, "wall_s": round(time.time() - t0, 1), "lines": lines[:6],
                                 "last": out.splitlines()[-1] if out.splitlines() else ""})
                    if rc == 1:
                        caught = s
                        break
                rec["checks"][c] = {"caught": caught is not None, "seed": caught, "tier": tier, "runs": runs}
    finally:
        shutil.rmtree(scratch, ignore_errors=True)
    dst = os.path.join(VERIF, "seeded", sid)
    os.makedirs(dst, exist_ok=True)
    for fn in ("patch.diff", "demo.py"):
        shutil.copy(os.path.join(src, fn), os.path.join(dst, fn))
    meta["verification"] = rec
    with open(os.path.join(dst, "meta.json"), "w") as f:
        json.dump(meta, f, indent=1)
    print(json.dumps({"id": sid, "valid": rec.get("valid"), "checks": {k: (v["caught"], v["seed"]) for k, v in
                                                                        rec.get("checks", {}).items()}}))
    for c, v in rec.get("checks", {}).items():
        for r in v["runs"]:
            print("   ", c, "seed", r["seed"], "rc", r["rc"], r["wall_s"], "s", r["lines"][:2])
    if not rec.get("valid"):
        print("    NOT VALID:", json.dumps({k: rec.get(k) for k in ("demo_clean", "patch_applies", "demo_patched",
                                                                     "baseline_with_patch")})[:900])


if __name__ == "__main__":
    main()
