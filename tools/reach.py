#!/usr/bin/env python3
"""Reach measurement: which lines of the code a property is anchored in does its check execute?

    tools/reach.py C12 [--tier quick] [--seed N] [--files a.py,b.py] [--all]

Runs the check with CDDSIM_REACH set (cddsim/runner.py then records line coverage of cdd in every worker through
sys.monitoring, leaving the step seam's sys.settrace alone), combines the data and prints, for the files named in the
property's anchors (or --files), the executable lines never reached, grouped by function.  It decides nothing; it is the
"probe stuck at zero" report used to extend generators.  Scratch data lives in /dev/shm and is removed.
"""
import argparse
import ast
import json
import os
import shutil
import subprocess
import sys

VERIF = os.path.dirname(os.path.dirname(os.path.abspath(__file__)))
REPO = os.environ.get("CDDSIM_REPO", "/repo")
PY = "/venv/bin/python"


def anchors(pid):
    for line in open(os.path.join(VERIF, "properties.jsonl")):
        p = json.loads(line)
        if p["id"] == pid:
            a = p.get("anchors") or {}
            return [f for f in a.get("files", ()) if f.endswith(".py")]
    raise SystemExit("no property %s" % pid)


def functions(path):
    out = []
    try:
        tree = ast.parse(open(path).read())
    except SyntaxError:
        return out
    for n in ast.walk(tree):
        if isinstance(n, (ast.FunctionDef, ast.AsyncFunctionDef)):
            out.append((n.lineno, n.end_lineno, n.name))
    return sorted(out)


def main():
    ap = argparse.ArgumentParser()
    ap.add_argument("prop")
    ap.add_argument("--tier", default="quick")
    ap.add_argument("--seed", default=None)
    ap.add_argument("--files", default=None)
    ap.add_argument("--all", action="store_true", help="every cdd file that was touched at all, not only the anchors")
    ap.add_argument("--show", type=int, default=400, help="max missed lines printed per file")
    a = ap.parse_args()
    d = "/dev/shm/reach-%s-%d" % (a.prop, os.getpid())
    os.makedirs(d)
    try:
        cmd = [os.path.join(VERIF, "check"), a.prop, "--tier", a.tier, "--no-evidence"]
        if a.seed is not None:
            cmd += ["--seed", a.seed]
        env = dict(os.environ, CDDSIM_REACH=d)
        r = subprocess.run(cmd, env=env, stdout=subprocess.PIPE, stderr=subprocess.STDOUT, text=True)
        print(r.stdout.strip().splitlines()[-1] if r.stdout.strip() else "(no output)")
        script = r'''
import coverage, json, sys, glob, os
d = sys.argv[1]
cov = coverage.Coverage(data_file=os.path.join(d, "cov"), config_file=False)
cov.combine(glob.glob(os.path.join(d, "cov.*")), keep=False)
cov.save()
data = cov.get_data()
out = {}
for f in data.measured_files():
    try:
        _, stmts, _, missing, _ = cov.analysis2(f)
    except Exception as e:
        continue
    out[f] = {"stmts": len(stmts), "missing": list(missing)}
json.dump(out, sys.stdout)
'''
        r2 = subprocess.run([PY, "-c", script, d], stdout=subprocess.PIPE, text=True)
        res = json.loads(r2.stdout or "{}")
        files = a.files.split(",") if a.files else anchors(a.prop)
        wanted = sorted(res) if a.all else [os.path.join(REPO, f) for f in files]
        for f in wanted:
            rel = os.path.relpath(f, REPO)
            if f not in res:
                print("\n== %s: never executed in a worker" % rel)
                continue
            st, miss = res[f]["stmts"], res[f]["missing"]
            print("\n== %s: %d/%d statements reached (%.0f%%)" % (rel, st - len(miss), st, 100.0 * (st - len(miss)) / max(st, 1)))
            if a.all:
                continue
            src = open(f).read().splitlines()
            fns = functions(f)
            last = None
            for ln in miss[:a.show]:
                fn = next((n for (s, e, n) in reversed(fns) if s <= ln <= e), "<module>")
                if fn != last:
                    print("  -- %s" % fn)
                    last = fn
                print("     %5d  %s" % (ln, src[ln - 1].strip()[:140]))
    finally:
        shutil.rmtree(d, ignore_errors=True)


if __name__ == "__main__":
    main()
