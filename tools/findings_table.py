#!/usr/bin/env python3
"""Markdown tables of fixed defects and open known findings (from known_findings.json and known_findings.d/*.json)."""
import glob
import json
import os

HERE = os.path.dirname(os.path.dirname(os.path.abspath(__file__)))
ents = []
for fn in [os.path.join(HERE, "known_findings.json")] + sorted(glob.glob(os.path.join(HERE, "known_findings.d", "*.json"))):
    ents += json.load(open(fn)).get("findings", [])
ents.sort(key=lambda e: (e["property"], e["id"]))
print("Fixed in `/repo` (one `fix:` commit each; replayed on every run as regression histories):\n")
print("| id | property/clause | commit | what failed |")
print("|---|---|---|---|")
for e in ents:
    if e["status"] == "fixed":
        s = e["summary"]
        s = s.split(" ", 3)[3] if s.startswith("fixed:") else s
        print("| %s | %s/%s | %s | %s |" % (e["id"], e["property"], e["clause"], e.get("commit", ""), s.replace("|", "/")[:260]))
print("\nOpen known findings (narrow machine-checked signature + minimal replay; printed as `KNOWN-FINDING`):\n")
print("| id | property/clause | signature | what fails |")
print("|---|---|---|---|")
for e in ents:
    if e["status"] == "open":
        print("| %s | %s/%s | `%s` | %s |" % (e["id"], e["property"], e["clause"], json.dumps(e["signature"], sort_keys=True),
                                            e["summary"].replace("|", "/")[:300]))
