#!/bin/sh
# Offline setup after a fresh restore: the framework is pure Python; only Hypothesis must be importable in /venv.
set -e
cd "$(dirname "$0")/.."
if ! /venv/bin/python -c "import hypothesis" 2>/dev/null; then
  PIP_NO_INDEX=1 /venv/bin/pip install --no-index --find-links /opt/veriftools/wheels hypothesis
fi
/venv/bin/python -c "import hypothesis, black, setuptools; print('hypothesis', hypothesis.__version__)"
mkdir -p evidence replays
chmod +x check cddsim_main.py tools/*.py tools/*.sh 2>/dev/null || true
echo setup ok
