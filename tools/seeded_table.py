#!/usr/bin/env python3
"""Markdown table of the seeded breaking changes and which check caught them (from seeded/*/meta.json)."""
import glob
import json
import os

HERE = os.path.dirname(os.path.dirname(os.path.abspath(__file__)))
notes = json.load(open(os.path.join(HERE, "seeded", "NOTES.json")))
print("| id | breaks | needs to manifest | caught by (clause) | note |")
print("|---|---|---|---|---|")
for d in sorted(glob.glob(os.path.join(HERE, "seeded", "*", "meta.json"))):
    sid = os.path.basename(os.path.dirname(d))
    m = json.load(open(d))
    v = m.get("verification", {})
    caught = []
    for c, r in (v.get("checks") or {}).items():
        if r.get("caught"):
            line = next((ln for run in r["runs"] for ln in run["lines"] if ln.strip().startswith("clause=")), "")
            caught.append("%s %s (seed %s, %s)" % (c, line.strip().split(" ")[0].replace("clause=", ""), r["seed"], r["tier"]))
        else:
            caught.append("%s: NOT caught" % c)
    print("| %s | %s | %s | %s | %s |" % (sid, (m.get("what_it_breaks") or m.get("title") or "")[:110].replace("|", "/"),
                                       (m.get("needs_to_manifest") or "")[:120].replace("|", "/"),
                                       "; ".join(caught) if v.get("valid") else "not valid: " + str(v.get("patch_applies")),
                                       notes.get(sid, "")[:200]))
