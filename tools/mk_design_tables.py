#!/usr/bin/env python3
"""Regenerate the generated parts of DESIGN.md: the §8.4 findings tables and the §8.5 seeded-change table.
The prose around the tables is kept; only the text between the BEGIN/END markers is replaced."""
import glob
import json
import os
import subprocess

HERE = os.path.dirname(os.path.dirname(os.path.abspath(__file__)))


def seeded_rows():
    notes = json.load(open(os.path.join(HERE, "seeded", "NOTES.json")))
    rows = []
    for d in sorted(glob.glob(os.path.join(HERE, "seeded", "*", "meta.json"))):
        sid = os.path.basename(os.path.dirname(d))
        m = json.load(open(d))
        v = m.get("verification", {})
        caught = []
        for c, r in (v.get("checks") or {}).items():
            line = next((ln for run in r["runs"] for ln in run["lines"] if ln.strip().startswith("clause=")), "")
            caught.append("%s/%s" % (c, line.strip().split(" ")[0].replace("clause=", "")) if r.get("caught") else c + ": missed")
        title = (m.get("title") or m.get("what_it_breaks") or "")[:95].replace("|", "/").replace("\n", " ")
        needs = (m.get("needs_to_manifest") or "")[:110].replace("|", "/").replace("\n", " ")
        how = "strengthened" if sid in notes and "missed at first" in notes[sid] else ("see note" if sid in notes else "as built")
        rows.append("| %s | %s | %s | %s | %s |" % (sid, title, needs, ", ".join(caught), how))
    return rows


def replace_between(s, begin, end, text):
    a = s.index(begin) + len(begin)
    b = s.index(end)
    return s[:a] + "\n" + text + "\n" + s[b:]


def main():
    p = os.path.join(HERE, "DESIGN.md")
    s = open(p).read()
    rows = seeded_rows()
    table = "| id | change | needs to manifest | caught by check/clause | check |\n|---|---|---|---|---|\n" + "\n".join(rows)
    s = replace_between(s, "<!-- BEGIN seeded-table -->", "<!-- END seeded-table -->", table)
    ft = subprocess.check_output(["python3", os.path.join(HERE, "tools", "findings_table.py")], text=True)
    s = replace_between(s, "<!-- BEGIN findings-tables -->", "<!-- END findings-tables -->", ft)
    open(p, "w").write(s)
    print("DESIGN.md: %d seeded rows" % len(rows))


if __name__ == "__main__":
    main()
