"""C17 — analysing source never executes it or touches anything but the output.

Adversarial inputs (DESIGN.md §3 C17): modules, docstrings and interface descriptions whose defaults, type strings,
descriptions, decorators, class attribute values, argparse / SQLAlchemy arguments and module-level code carry
payloads — call expressions, dunder attribute chains, names that exist in the evaluating module's globals, import
statements, side-effecting statements — all aimed at a per-run sentinel (files under the world root, an environment
variable, an attribute of a harness module).  Every public parser and emitter and the commands doctrans, sync,
sync_properties and gen-from-file run on them under the open seam and the audit seam (monitor mode), fault-free and
with one injected exception / I/O error, and after *every* operation — also when it raised — the monitor clauses
G1..G5 are asserted on the interpreter events, not on outputs.
"""
import ast
import dis
import json
import re
import os
import sys
import types

from hypothesis import strategies as st

from cddsim import CDD_DIR, hyp, ops, proc, pureops, seams
from cddsim.hyp import SimResult, digest_of, explore
from cddsim.runner import load_known
from cddsim.world import SimWorld

ID = "C17"
LEVEL = "exploration"
RULE = ("Hypothesis-drawn adversarial interface specs (0..4 parameters; every type string, signature default, "
        "'Defaults to' clause and description drawn from pools whose first entries are benign and whose other entries "
        "are payloads: calls such as __import__('os').system('touch PWNED') / open('PWNED','w') / exec(...) / "
        "sys.exit(), dunder chains, names living in the evaluating module's globals, imports of antigravity / this / "
        "sentinel_mod; prose templates built so that parse_adhoc_doc_for_typ derives a type string from the payload; "
        "payload decorators; 0..3 side-effecting module-level statements) rendered by the harness as rest / google / "
        "numpydoc docstrings, a function, a class, an argparse function, SQLAlchemy class / table, a pydantic class, "
        "a JSON schema and an IR. Per run 3..8 in-memory operations (all parsers, all nine emitters, parse->emit, "
        "docstring round-trips) and 1..3 commands (doctrans, sync, sync_properties without --input-eval, gen from a "
        "file with --parse infer|class|function|argparse; rarely the two stated exceptions sync_properties "
        "--input-eval and gen --prepend) run on one simulated disk with all seams in monitor mode; one third of the "
        "commands and in-memory operations are re-run with an injected exception at a drawn line event or an I/O "
        "error at a drawn seam call (position taken from a traced fault-free rehearsal). G1-G5 are judged after every "
        "operation from the audit/open seam log, the world snapshot diff, sys.modules, the environment and the harness "
        "sentinel module. Non-trivial = at least one operation ran to completion on an input that carries a payload "
        "and a reach probe fired; distinct = distinct outcome digest.")
ASSUMPTIONS = [
    "G3 follows the design: evaluating a doc-derived *type expression* built only from names, attributes without "
    "dunders, subscripts, tuples, constants and binary operators is tolerated (that is what the character whitelist "
    "guarantees today); any CALL*, IMPORT_NAME or dunder attribute load in input-derived code is a violation",
    "input-derived code = a code object whose filename lies inside the simulated world, or whose filename names no "
    "module file (<string>, <unknown>, <ast>, a made-up label) and whose exec was requested by a cdd frame or by code "
    "that is itself input-derived, or that mentions a sentinel marker; <string> code that stdlib / black internals "
    "build for themselves (namedtuple, dataclasses) and module files executed by an import are not input-derived",
    "for sync every file named on the command line counts as a declared output (which of them sync should rewrite is "
    "C12's subject); for doctrans the file itself; for sync_properties the --output-filename; for gen the -o file",
    "sync_properties --input-eval and gen --prepend are the stated exceptions: exempted are only exec events of the "
    "--input-filename under --input-eval (and imports it requests) and of the import statements the user passed in "
    "--prepend",
    "os.putenv / os.unsetenv / os.kill / ctypes.dlopen audit events are not 'a process is spawned / network access' "
    "and are judged only through the sentinel (G5)",
]
REAL = ["cdd (all modules, working tree)", "cdd.__main__.main", "CPython eval/exec/compile/import machinery as seen by "
        "sys.addaudithook", "black", "tmpfs file system"]
STUBBED = ["os.system / subprocess.Popen / os.exec* / os.posix_spawn / socket.* are recorded and refused by the audit "
           "seam (PermissionError) so that a payload that does run cannot leave the sandbox",
           "write-mode file objects inside the world (SimFile); writes outside the world are recorded and refused",
           "asynchronous failures (exception raised by the line-event seam), OS error returns (synthetic OSError)"]
STEP_BUDGET = 3000000
TASK_TIMEOUT = {"quick": 900, "thorough": 5400}


def probes():
    return ["eval_of_doc_derived_type_string_observed", "eval_of_type_string_with_input_name",
            "literal_eval_default_path", "literal_eval_default_path_with_payload", "payload_in_default",
            "payload_in_type", "payload_in_prose", "payload_in_decorator", "module_level_side_effect_code_present",
            "gen_from_file", "gen_wrote_output", "doctrans", "doctrans_rewrote_file", "sync", "sync_properties",
            "pure_parse_ops", "pure_emit_ops", "error_path_injection_fired", "io_fault_fired",
            "input_eval_exception_exercised", "prepend_exception_exercised", "torn_input_reused", "black_absent", "route_parser_ops"]


# ------------------------------------------------------------------------------------ sentinels
SENT_FILE = "PWNED"            # relative: the cwd of every operation is the world root
SENT_ABS = "PWNED_ABS"         # addressed absolutely: os.getcwd() + '/PWNED_ABS', computed when the payload runs
SENT_IMPORT = "PWNED_IMPORT"   # written by sentinel_mod.py when it is imported
SENT_FILES = (SENT_FILE, SENT_ABS, SENT_IMPORT, "PWNEDw", "Sw")
SENT_ENV = "CDDSIM_C17_SENTINEL"
SENT_MOD = "c17_sentinel"      # harness module in sys.modules; payloads set .touched
PAYLOAD_MODULES = ("antigravity", "this", "sentinel_mod", "sentpkg", "sentpkg.sub")
MARKERS = ("PWNED", SENT_ENV, SENT_MOD, "antigravity", "sentinel_mod", "sentpkg")
SENTINEL_MOD_SRC = ("# imported only if some analysed text was executed\n"
                    "open(__file__[:-len('sentinel_mod.py')] + 'PWNED_IMPORT', 'w').write('imported')\n")


def _sentinel_module():
    m = sys.modules.get(SENT_MOD)
    if m is None:
        m = types.ModuleType(SENT_MOD)
        m.touched = 0
        sys.modules[SENT_MOD] = m
    return m


# ------------------------------------------------------------------------------------- payloads
# expression payloads (valid Python expressions).  No payload text contains the pid-dependent world root: input text
# must be identical from run to run (hash order, line wrapping and torn-write prefixes depend on it)
CALLS = (
    "__import__('os').system('touch PWNED')",
    "open('PWNED', 'w')",
    "open('PWNED','w').write('1')",
    "exec(\"open('PWNED','w')\")",
    "eval(\"open('PWNED','w')\")",
    "().__class__.__mro__[1].__subclasses__()",
    "sys.exit()",
    "exit()",
    "__import__('antigravity')",
    "__import__('this')",
    "__import__('sentinel_mod')",
    "__import__('os').environ.__setitem__('CDDSIM_C17_SENTINEL', '1')",
    "__import__('sys').modules['c17_sentinel'].__setattr__('touched', 1)",
    "open(__import__('os').getcwd() + '/PWNED_ABS', 'w')",
    "print('x', file=open('PWNED', 'w'))",
    "(lambda: open('PWNED', 'w'))()",
    "[c for c in ().__class__.__base__.__subclasses__()]",
    "ast.literal_eval('1')",
    "cdd.shared.ast_utils.NoneStr.upper()",
    "os.system('touch PWNED')",
    "__import__('subprocess').Popen(['touch', 'PWNED'])",
    "__import__('socket').socket()",
    "sys.modules['c17_sentinel'].__setattr__('touched', 1)",
    "sys.stderr.write(open('PWNED', 'w').name)",
)
NAMES = ("sys.exit", "ast.literal_eval", "cdd", "sys.modules", "open", "exec", "collections.abc.Callable",
         "cdd.shared.ast_utils", "().__class__", "sys.__dict__", "print", "deepcopy", "exit",
         # dotted names whose first component is an importable payload module that is NOT a global of the evaluating
         # module: a 'helpful' import to resolve them would execute that module
         "this.s", "antigravity.fly", "sentinel_mod.Thing", "this.d", "sentpkg.sub.Thing", "sentpkg.sub.other.Thing")
# payloads spelt only with characters that survive (or would survive a widened) word-character filter of
# parse_adhoc_doc_for_typ: letters, digits, quotes, '/', '|', '.', '(', ')'
WORDY = ("open('PWNED', 'w')", "sys.exit()", "exit()", "open('PWNED','w')", "print('PWNED')", "eval('1')",
         "exec('1')", "sys.stderr.write('PWNED')", "open('PWNED', 'w').close()", "quit()", "sys.exit",
         "ast.literal_eval", "cdd", "sys.stdout.flush()", "collections.OrderedDict()", "open('PWNED'/'w')",
         "print('PWNED')|exit()", "this.s", "antigravity.fly", "this.d", "sentpkg.sub.Thing")
BENIGN_TYPES = ("int", "str", "bool", "float", "Optional[int]", "Optional[str]", "List[str]", "Literal['a', 'b']")
TYPE_POOL = BENIGN_TYPES + CALLS[:8] + (
    "Union[sys.exit, ast.literal_eval]", "cdd", "List[open('PWNED', 'w')]", "Optional[__import__('antigravity')]",
    "lambda: open('PWNED', 'w')", "dict(a=open('PWNED','w'))", "Literal[exit()]", "sys.exit", "().__class__.__base__",
    "Optional[__import__('sentinel_mod')]", "open(__import__('os').getcwd() + '/PWNED_ABS', 'w')",
)
# (type, default): unpickling the first runs open('PWNED', 'w'), the second os.system('touch PWNED'); eval/exec as `type=`
SERIALISED = (("pickle.loads", "b\"cbuiltins\\nopen\\n(S'PWNED'\\nS'w'\\ntR.\""),
              ("pickle.loads", "b\"cos\\nsystem\\n(S'touch PWNED'\\ntR.\""),
              ("eval", "\"open('PWNED', 'w')\""), ("exec", "\"open('PWNED', 'w')\""),
              ("marshal.loads", "b'\\xe9\\x01\\x00\\x00\\x00'"))
CHOICES_CALLS = ("range(3)", "sorted(['b', 'a'])", "exec(\"open('PWNED','w')\")", "eval(\"[open('PWNED','w'), 'a'][1:]\")",
                 "open('PWNED', 'w')", "__import__('antigravity')", "list(map(open, ['PWNED'], ['w']))",
                 "getattr(__import__('os'), 'system')('touch PWNED')", "print('x', file=open('PWNED', 'w'))")
BENIGN_DEFAULTS = ("5", "'a'", "True", "None", "0.5")
DEFAULT_POOL = BENIGN_DEFAULTS + CALLS + ("sys.exit", "().__class__", "cdd",
                                           # arithmetic shapes (BinOp / UnaryOp / compare) around a literal-rooted dunder chain
                                           "60 * 60", "().__class__.__mro__[1].__subclasses__() * 0",
                                           "[].__class__.__base__.__subclasses__().__len__() * 0 + 1",
                                           "-(().__class__.__mro__[1].__subclasses__().__len__())",
                                           "1 if ().__class__.__mro__[1].__subclasses__() else 0")
DOC_DEFAULT_POOL = (None, "5", "'a'", "True", "None") + (
    "open('PWNED', 'w')", "__import__('os').system('touch PWNED')", "exec(\"open('PWNED','w')\")",
    "open('PWNED','w').write('1')", "().__class__.__mro__[1].__subclasses__()", "exit()",
    "__import__('antigravity')", "__import__('sentinel_mod')", "[open('PWNED', 'w')]",
    "{'a': open('PWNED', 'w')}", "(1, open('PWNED', 'w'))", "__import__('os').environ.__setitem__('"
    "CDDSIM_C17_SENTINEL', '1')", "__import__('sys').modules['c17_sentinel'].__setattr__('touched', 1)",
    "open(__import__('os').getcwd() + '/PWNED_ABS', 'w')", "print('x', file=open('PWNED', 'w'))", "eval('exit()')",
    "sys.exit()",
    "int('5')", "ast.literal_eval", "cdd", "True if open('PWNED', 'w') else False", "-open('PWNED', 'w').fileno()",
)
DEFAULT_ANNOUNCE = (". Defaults to {d}", ". Defaults to {d}.", " (defaults to {d})", ". Default value is {d}",
                    ". Default: {d}", ", defaults to `{d}`", ". Defaults to ```{d}```")
# prose templates: {a}/{b} are payloads; the shapes are the ones parse_adhoc_doc_for_typ reacts to
PROSE = (
    "the first thing",                       # benign (simplest draw)
    "{a} or {b}",
    "{a} or {b}.",
    "`{a}` or `{b}`",
    "Either `{a}`, `{b}` or None.",
    "One of {a} or {b}. Used later.",
    "List of {a} or {b}",
    "Tuple of {a} or {b}.",
    "Dictionary of {a} or {b}",
    "the {a}/{b} value",
    "value {a}|{b} given",
    "{a}",
    "{a}.",
    "integer, {a} or {b}",
    "whether {a} or {b}",
    "String; {a} or {b}",
    "The thing. {a} or {b}. More words",
    "Optional {a} or {b}",
    "number of {a}",
    "`{a}` of `{b}`",
    "{a}, {b} or {a}",
    "either {a} or None, default {b}",
)
MODULE_CODE = (
    "import antigravity",
    "import this",
    "import sentinel_mod",
    "open('PWNED', 'w').write('module-level code ran')",
    "__import__('os').system('touch PWNED')",
    "import os as _os\n_os.environ['CDDSIM_C17_SENTINEL'] = '1'",
    "import sys as _sys\n_sys.modules['c17_sentinel'].touched = 1",
    "open(__import__('os').getcwd() + '/PWNED_ABS', 'w').close()",
    "from subprocess import Popen\nPopen(['touch', 'PWNED'])",
    "exec(\"open('PWNED', 'w')\")",
    "if True:\n    open('PWNED', 'w')",
    "try:\n    import socket\n    socket.create_connection(('127.0.0.1', 9))\nexcept OSError:\n    open('PWNED', 'w')",
)
DECORATOR_POOL = ("__import__('os').system('touch PWNED')", "open('PWNED', 'w')", "exit()",
                  "(lambda f: open('PWNED', 'w') and f)", "__import__('antigravity').x", "sys.exit",
                  "().__class__.__mro__[1].__subclasses__()[0]")
PARAM_NAMES = ("alpha", "beta", "count", "size", "label", "mode", "rate", "depth")
SIMPLE = ("int", "str", "bool", "float")
STYLES = ("rest", "google", "numpydoc")

for _p in CALLS + NAMES + TYPE_POOL + DEFAULT_POOL + DECORATOR_POOL + tuple(x for x in DOC_DEFAULT_POOL if x):
    ast.parse(_p, mode="eval")
    assert '"""' not in _p and "\\" not in _p and "{ROOT}" not in _p
for _p in MODULE_CODE:
    ast.parse(_p)
    assert "{ROOT}" not in _p


def is_payload(text):
    """Does this slot value carry anything beyond the benign pools?"""
    if text is None:
        return False
    return text not in BENIGN_TYPES and text not in BENIGN_DEFAULTS and text != PROSE[0]


# ------------------------------------------------------------------------------------ generators
@st.composite
def prose(draw):
    tpl = draw(st.sampled_from(PROSE))
    if "{a}" not in tpl:
        return tpl
    pool = WORDY + NAMES + CALLS[:6]
    a = draw(st.sampled_from(pool))
    b = draw(st.sampled_from(("None", "int", "str") + pool)) if "{b}" in tpl else ""
    return tpl.replace("{a}", a).replace("{b}", b)


@st.composite
def adv_param(draw, name):
    typ = draw(st.sampled_from(TYPE_POOL))
    p = {"name": name, "typ": typ, "typ_in": draw(st.sampled_from(("doc", "sig", "none"))),
         "default": draw(st.sampled_from((None,) + DEFAULT_POOL)),
         "doc": draw(prose()), "doc_default": None, "announce": 0}
    if draw(st.integers(0, 2)) == 2:
        p["doc_default"] = draw(st.sampled_from(DOC_DEFAULT_POOL[1:]))
        p["announce"] = draw(st.integers(0, len(DEFAULT_ANNOUNCE) - 1))
    if draw(st.integers(0, 9)) == 9:
        # argparse `choices=` written as a call of a builtin with literal arguments (range(3) is common; eval/exec/open
        # are builtins too): the expression is data of the analysed source
        p["choices"] = draw(st.sampled_from(CHOICES_CALLS))
    if draw(st.integers(0, 11)) == 11:
        # a deserialiser named as the type and serialised data as the default (`type=pickle.loads, default=b"..."` is
        # what argparse users - and cdd's own argparse emitter - write): the bytes are data of the analysed source
        p["typ"], p["default"] = draw(st.sampled_from(SERIALISED))
        p["typ_in"] = draw(st.sampled_from(("sig", "sig", "doc")))
    return p


@st.composite
def adv_spec(draw):
    n = draw(st.integers(0, 4))
    names = draw(st.lists(st.sampled_from(PARAM_NAMES), min_size=n, max_size=n, unique=True))
    params = [draw(adv_param(nm)) for nm in names]
    ret = None
    if draw(st.integers(0, 2)) == 2:
        ret = {"typ": draw(st.sampled_from(TYPE_POOL)), "doc": draw(prose()),
               "value": draw(st.sampled_from(DEFAULT_POOL))}
    return {"doc": draw(st.sampled_from(("Do the thing.", "Compute it\n\nLonger text here.", "", "{a} or {b}"))).replace(
                "{a}", "sys.exit()").replace("{b}", "open('PWNED', 'w')"),
            "params": params, "returns": ret, "style": draw(st.sampled_from(STYLES)),
            "module_code": draw(st.lists(st.sampled_from(MODULE_CODE), max_size=3)),
            "decorators": [draw(st.sampled_from(DECORATOR_POOL))] if draw(st.integers(0, 3)) == 3 else [],
            "class_body_call": draw(st.integers(0, 3)) == 3}


PURE_KINDS = ("parse_docstring", "parse_docstring_raw", "docstring_roundtrip", "parse_function", "parse_class",
              "parse_argparse", "parse_sqlalchemy", "parse_sqlalchemy_hybrid", "parse_sqlalchemy_table",
              "parse_pydantic", "parse_json_schema", "emit", "parse_emit")
# emit / parse_emit fan out over nine emitters (x seven parsers): drawn three times as often
PURE_KINDS = PURE_KINDS + ("parse_route",)
PURE_DRAW = PURE_KINDS + ("emit", "parse_emit", "emit", "parse_emit", "parse_docstring", "parse_function")
CMD_KINDS = ("doctrans", "gen", "sync", "sync_properties", "doctrans", "gen")
# (gen --parse sqlalchemy_table and gen --emit function fail before / after parsing on every input, for reasons that
# belong to C19; they are left out so that the runs spend their time inside parsers and emitters)
GEN_PARSE = ("infer", "class", "function", "argparse", "sqlalchemy", "pydantic")
GEN_EMIT = ("class", "argparse", "json_schema", "pydantic", "sqlalchemy", "sqlalchemy_table", "sqlalchemy_hybrid")
PREPENDS = ("import colorsys\n", "from colorsys import rgb_to_hls\nimport json\n",
            "import json\nPWNED = open('PWNED', 'w')\n", "from os import path\n")
EXCS = ("RuntimeError", "MemoryError", "OSError", "RecursionError", "KeyboardInterrupt")


@st.composite
def fault(draw):
    """None (most often), a line fault or an I/O fault; positions are fractions of the rehearsal's extent."""
    k = draw(st.integers(0, 2))
    if k < 2:
        return None
    if draw(st.booleans()):
        return {"seam": "line", "frac": draw(st.floats(0, 0.9999)), "exc": draw(st.sampled_from(EXCS))}
    return {"seam": "io", "frac": draw(st.floats(0, 0.9999)), "errno_i": draw(st.integers(0, 2)),
            "keep": draw(st.sampled_from((0, 0.5)))}


@st.composite
def pure_op(draw):
    kind = draw(st.sampled_from(PURE_DRAW))
    op = {"k": "pure", "what": kind, "fault": draw(fault())}
    if kind in ("parse_docstring", "parse_docstring_raw", "docstring_roundtrip"):
        op["style"] = draw(st.sampled_from(STYLES))
        op["variant"] = draw(st.integers(0, 3))
        op["emit_style"] = draw(st.sampled_from(STYLES))
    if kind in ("emit", "parse_emit"):
        op["emitter"] = draw(st.sampled_from(pureops.EMITTERS))
        op["emit_style"] = draw(st.sampled_from(STYLES))
        op["word_wrap"] = draw(st.booleans())
    if kind == "parse_emit":
        op["parser"] = draw(st.sampled_from(pureops.SOURCE_PARSERS))
    if kind == "parse_class":
        op["merge_inner_function"] = draw(st.sampled_from((None, None, "__call__")))
    return op


@st.composite
def cmd_op(draw):
    kind = draw(st.sampled_from(CMD_KINDS))
    if draw(st.integers(0, 7)) == 7:
        kind = draw(st.sampled_from(("input_eval", "prepend")))
    op = {"k": kind, "fault": draw(fault())}
    if kind == "doctrans":
        op["format"] = draw(st.sampled_from(STYLES))
        op["type_annotations"] = draw(st.booleans())
    elif kind == "gen":
        op["parse"] = draw(st.sampled_from(GEN_PARSE))
        op["emit"] = draw(st.sampled_from(GEN_EMIT))
        op["extra"] = draw(st.sampled_from(("", "", "imports_from_file", "decorator", "emit_call", "infer_imports",
                                            "no_word_wrap")))
    elif kind == "sync":
        op["truth"] = draw(st.sampled_from(("class", "function", "argparse_function")))
        op["missing"] = draw(st.sampled_from(("", "", "", "class", "function", "argparse_function")))
    elif kind == "sync_properties":
        # the last four name something that is not a plain top-level (annotated) assignment: bound under `if` / `try`,
        # by tuple unpacking, or not at all - without --input-eval there is no licence to run the module to find it
        op["input_param"] = draw(st.sampled_from(("src.{p}", "In.{p}", "VALUE", "src.{p}", "In.{p}", "VALUE",
                                                  "COND_VALUE", "TRY_VALUE", "UNPACKED_A", "NO_SUCH_NAME")))
        op["output_param"] = draw(st.sampled_from(("Out.kind", "dst.arg")))
        op["wrap"] = draw(st.sampled_from((None, None, "Optional[{output_param}]", "Union[{output_param}, exit()]")))
    elif kind == "prepend":
        op["text"] = draw(st.sampled_from(PREPENDS))
        op["parse"] = draw(st.sampled_from(("infer", "class", "function")))
        op["emit"] = draw(st.sampled_from(("class", "argparse", "sqlalchemy")))
        op["fault"] = None
    elif kind == "input_eval":
        op["fault"] = None
    return op


@st.composite
def plans(draw):
    return {"spec": draw(adv_spec()),
            "pure": draw(st.lists(pure_op(), min_size=3, max_size=8)),
            "cmds": draw(st.lists(cmd_op(), min_size=1, max_size=3)),
            # configuration: the optional formatter dependency absent (cdd's own fallback runs; an executable called
            # `black` is first on PATH - running it would be spawning a process)
            "black": draw(st.sampled_from((True, True, True, False)))}


# -------------------------------------------------------------------------------------- renderers
def _doc_of(p):
    d = p["doc"]
    if p.get("doc_default") is not None:
        d = d.rstrip(".") + DEFAULT_ANNOUNCE[p["announce"]].format(d=p["doc_default"])
    return d


def docstring_lines(spec, style, with_types=True, kind="param"):
    out = [ln for ln in spec["doc"].split("\n")] if spec["doc"] else []
    params = spec["params"]
    ret = spec.get("returns")
    if style == "rest":
        if params or ret:
            out.append("")
        for p in params:
            out.append(":%s %s: %s" % (kind, p["name"], _doc_of(p)))
            if with_types and p["typ_in"] == "doc" and kind == "param":
                out.append(":type %s: ```%s```" % (p["name"], p["typ"]))
            out.append("")
        if ret:
            out.append(":return: %s" % ret["doc"])
            if with_types:
                out.append(":rtype: ```%s```" % ret["typ"])
    elif style == "google":
        if params:
            out += ["", "Args:"]
            for p in params:
                if with_types and p["typ_in"] == "doc":
                    out.append("  %s (%s): %s" % (p["name"], p["typ"], _doc_of(p)))
                else:
                    out.append("  %s: %s" % (p["name"], _doc_of(p)))
        if ret:
            out += ["", "Returns:"]
            out += ["  %s:" % ret["typ"], "   %s" % ret["doc"]] if with_types else ["  %s" % ret["doc"]]
    else:
        if params:
            out += ["", "Parameters", "----------"]
            for p in params:
                out.append("%s : %s" % (p["name"], p["typ"]) if (with_types and p["typ_in"] == "doc") else p["name"])
                out.append("  %s" % _doc_of(p))
        if ret:
            out += ["", "Returns", "-------", "return_type : %s" % ret["typ"] if with_types else "return_type",
                    "  %s" % ret["doc"]]
    return out


def _docstring(spec, style, indent, **kw):
    body = "\n".join((indent + ln) if ln else ln for ln in docstring_lines(spec, style, **kw))
    return '%s"""\n%s\n%s"""' % (indent, body, indent)


def _sig(spec, first=None):
    parts = [first] if first else []
    seen_default = False
    for p in spec["params"]:
        s = p["name"]
        d = p["default"]
        if d is None and seen_default:
            d = "None"
        if p["typ_in"] == "sig":
            s += ": " + p["typ"]
            if d is not None:
                s += " = " + d
        elif d is not None:
            s += "=" + d
        if d is not None:
            seen_default = True
        parts.append(s)
    return ", ".join(parts)


def render_function(spec, name="run", indent="", first=None, style=None):
    inner = indent + "    "
    style = style or spec["style"]
    lines = ["%s@%s" % (indent, d) for d in spec.get("decorators", ())]
    ret = spec.get("returns")
    arrow = " -> %s" % ret["typ"] if (ret and any(p["typ_in"] == "sig" for p in spec["params"])) else ""
    lines.append("%sdef %s(%s)%s:" % (indent, name, _sig(spec, first), arrow))
    lines.append(_docstring(spec, style, inner))
    lines.append("%sreturn %s" % (inner, ret["value"] if ret else "None"))
    return lines


def render_class(spec, name="Cfg", bases="object"):
    lines = ["@%s" % d for d in spec.get("decorators", ())]
    lines.append("class %s(%s):" % (name, bases))
    lines.append(_docstring(spec, "rest", "    ", with_types=False, kind="cvar"))
    for p in spec["params"]:
        d = p["default"]
        if p["typ_in"] == "none":
            lines.append("    %s = %s" % (p["name"], d if d is not None else "None"))
        else:
            lines.append("    %s: %s%s" % (p["name"], p["typ"], " = " + d if d is not None else ""))
    if spec.get("class_body_call"):
        lines.append("    open('PWNED', 'w').write('class body ran')")
    lines.append("")
    lines += render_function(dict(spec, decorators=()), name="__call__", indent="    ", first="self")
    return lines


def render_argparse(spec, name="set_cli_args"):
    lines = ["def %s(argument_parser):" % name, '    """', "    Set CLI arguments", "",
             "    :param argument_parser: argument parser", "    :type argument_parser: ```ArgumentParser```", "",
             "    :return: argument_parser, %s" % (spec["returns"]["doc"] if spec.get("returns") else "nothing"),
             "    :rtype: ```ArgumentParser```", '    """',
             "    argument_parser.description = %r" % (spec["doc"] or "desc")]
    for p in spec["params"]:
        kws = []
        if p["typ_in"] != "none":
            kws.append("type=%s" % p["typ"])
        kws.append("help=%r" % _doc_of(p))
        if p["default"] is not None:
            kws.append("required=True")
            kws.append("default=%s" % p["default"])
        if p.get("choices"):
            kws.append("choices=%s" % p["choices"])
        elif p["typ_in"] == "none" and p["default"] is not None:
            kws.append("choices=(%s, 'b')" % p["default"])
        lines.append("    argument_parser.add_argument(%r, %s)" % ("--" + p["name"], ", ".join(kws)))
    ret = spec.get("returns")
    lines.append("    return argument_parser%s" % (", %s" % ret["value"] if ret else ""))
    return lines


YAML_PAYLOADS = ("!!python/object/apply:os.system ['touch PWNED']", "!!python/object/apply:builtins.open ['PWNED', 'w']",
                 "!!python/object/new:subprocess.Popen [['touch', 'PWNED']]", "!!python/name:os.system",
                 "!!python/module:antigravity", "!!python/object/apply:builtins.exec [\"open('PWNED','w')\"]",
                 "plain words", "&anchor plain", "!!python/object/apply:builtins.__import__ ['sentinel_mod']")


def render_route(spec):
    """A bottle route function whose docstring carries an OpenAPI block in YAML (what cdd.routes.parse.bottle and the
    OpenAPI parser read).  Payloads: python-specific YAML tags, which a non-safe loader would construct (= execute)."""
    n = len(spec["params"])
    pick = lambda i: YAML_PAYLOADS[(i + n + len(spec["doc"])) % len(YAML_PAYLOADS)]  # noqa: E731
    lines = ["from bottle import Bottle", "", "rest_api = Bottle()", "", ""]
    lines += ["@rest_api.get('/api/thing/:name')", "def read(name):", '    """', "    %s" % (spec["doc"].split("\n")[0] or "Read one"),
              "", "    ```yml", "    responses:", "      '200':", "        description: %s" % pick(0),
              "        content:", "          application/json:", "            schema:",
              "              $ref: '#/components/schemas/Thing'", "      '404':", "        description: %s" % pick(1)]
    for i, p in enumerate(spec["params"][:2]):
        lines += ["      '%d':" % (500 + i), "        description: %s" % pick(2 + i)]
    lines += ["    ```", "", "    :param name: the name", "    :type name: ```str```", '    """', "    return {}"]
    return "\n".join(lines) + "\n"


SQL_TYPES = {"int": "Integer", "str": "String", "bool": "Boolean", "float": "Float"}


def _sql_column(p, positional_name=False):
    typ = SQL_TYPES.get(p["typ"], p["typ"] if p["typ_in"] == "sig" else "String")
    args = [repr(p["name"])] if positional_name else []
    args.append(typ)
    args.append("doc=%r" % _doc_of(p))
    if p["default"] is not None:
        args.append("default=%s" % p["default"])
        args.append("server_default=%s" % p["default"])
    else:
        args.append("nullable=True")
    if p["typ_in"] == "none":
        args.append("comment=%r" % p["doc"])
    return "Column(%s)" % ", ".join(args)


def render_sqlalchemy(spec, name="Tbl"):
    lines = ["class %s(Base):" % name, _docstring(spec, "rest", "    ", with_types=False, kind="cvar"),
             '    __tablename__ = "tbl"', "    id = Column(Integer, primary_key=True)"]
    for p in spec["params"]:
        lines.append("    %s = %s" % (p["name"], _sql_column(p)))
    lines += ["", "    def __repr__(self):", '        """', "        Emit a string", "",
              "        :return: %s" % (spec["returns"]["doc"] if spec.get("returns") else "String representation"),
              "        :rtype: ```str```", '        """',
              "        return %s" % (spec["returns"]["value"] if spec.get("returns") else "'Tbl'")]
    return lines


def render_sqlalchemy_table(spec, name="tbl"):
    cols = ["    Column('id', Integer, primary_key=True),"]
    for p in spec["params"]:
        cols.append("    %s," % _sql_column(p, positional_name=True))
    return ["%s = Table(" % name, "    %r," % name, "    metadata,"] + cols + [
        "    comment=%r," % ("\n".join(docstring_lines(spec, "rest", with_types=False)) or "tbl"), ")"]


def render_pydantic(spec, name="Pyd"):
    lines = ["class %s(BaseModel):" % name, _docstring(spec, "rest", "    ", with_types=False, kind="cvar")]
    for p in spec["params"]:
        lines.append("    %s: %s%s" % (p["name"], p["typ"], " = " + p["default"] if p["default"] is not None else ""))
    if not spec["params"]:
        lines.append("    pass")
    return lines


def render_json_schema(spec):
    props = {}
    for p in spec["params"]:
        d = {"description": _doc_of(p), "type": {"int": "integer", "str": "string", "bool": "boolean",
                                                  "float": "number"}.get(p["typ"], p["typ"])}
        if p["default"] is not None:
            d["default"] = p["default"]
        if p["typ_in"] == "none":
            d["pattern"] = p["typ"]
        props[p["name"]] = d
    if spec.get("class_body_call"):
        # references to other schemas by absolute URL (data: resolving them would be network access) and locally
        props["linked"] = {"$ref": "http://127.0.0.1:9/schemas/PWNED.json", "description": "the linked thing"}
        props["either"] = {"anyOf": [{"$ref": "https://example.invalid/PWNED.json"}, {"type": "string"}],
                           "description": "one or the other"}
        props["local"] = {"$ref": "#/definitions/PWNED", "description": "a local one"}
    return json.dumps({"$id": "https://example.invalid/PWNED.schema.json", "$schema": "http://json-schema.org/draft-07/schema#",
                       "description": "\n".join(docstring_lines(spec, "rest")), "type": "object", "properties": props,
                       "required": [p["name"] for p in spec["params"] if p["default"] is None]}, indent=1)


def render_ir_spec(spec):
    """InterfaceSpec for pureops.ir_from_spec: payloads as typ / default / doc values of an IR."""
    return {"name": "run", "doc": spec["doc"], "type": "static",
            "params": [{"name": p["name"], "typ": p["typ"] if p["typ_in"] != "none" else "", "default": p["default"],
                        "doc": _doc_of(p)} for p in spec["params"]],
            "returns": ({"typ": spec["returns"]["typ"], "doc": spec["returns"]["doc"]} if spec.get("returns") else None)}


HEADER = ["import sys", "from typing import List, Literal, Optional, Union", ""]


def _module(spec, *blocks):
    lines = list(HEADER)
    for stmt in spec.get("module_code", ()):
        lines += stmt.split("\n")
    for b in blocks:
        lines += ["", ""] + b
    return "\n".join(lines) + "\n"


def render_files(spec):
    """Every file of the simulated project (no file content depends on where the world lives)."""
    p0 = spec["params"][0] if spec["params"] else None
    files = {
        "m.py": _module(spec, render_function(spec), render_class(spec), render_argparse(spec)),
        "sa.py": _module(spec, ["from sqlalchemy import Boolean, Column, Float, Integer, String, Table, MetaData",
                                "metadata = MetaData()", "Base = object"],
                         render_sqlalchemy(spec), render_sqlalchemy_table(spec)),
        "pyd.py": _module(spec, ["from pydantic import BaseModel"], render_pydantic(spec)),
        "cls.py": _module(spec, render_class(spec)),
        "fn.py": _module(spec, render_function(spec)),
        "ap.py": _module(spec, render_argparse(spec)),
        "props_in.py": _module(spec, render_function(spec, name="src"), render_class(spec, name="In"),
                               (["VALUE: %s = %s" % (p0["typ"], p0["default"] or "None")] if p0 else ["VALUE: int = 5"]) +
                               ["if len(sys.argv) >= 0:", "    COND_VALUE: int = 5", "try:", "    TRY_VALUE: int = 5",
                                "except Exception:", "    TRY_VALUE = 6", "UNPACKED_A, UNPACKED_B = 1, 2"]),
        "props_out.py": "class Out(object):\n    \"\"\"Out.\"\"\"\n\n    kind: int = 0\n\n\ndef dst(arg: int = 0):\n"
                        "    \"\"\"\n    Dst.\n\n    :param arg: the arg\n    \"\"\"\n    return arg\n",
        # the --input-eval exception: a user file whose evaluation the user asked for (it calls, it imports, and it
        # carries inert payload text that must stay inert)
        "ev_in.py": "import colorsys\n\n\ndef helper(a=1):\n    \"\"\"\n    Helper.\n\n    :param a: sys.exit() or "
                    "open('PWNED', 'w'). Defaults to open('PWNED', 'w')\n    \"\"\"\n    return a\n\n\n"
                    "VALUES = tuple(sorted(('b', 'a', str(helper()))))\n",
        # --imports-from-file copies the import statements of this file into the output as text (one statement only:
        # gen joins them without a separator)
        "imp.py": "import antigravity\n",
        "sentinel_mod.py": SENTINEL_MOD_SRC,
        # an importable PACKAGE in the project directory (no underscore in its name: the type guesser strips them);
        # resolving `sentpkg.sub.Thing` by any import-based means executes its __init__
        "sentpkg/__init__.py": "open(__file__[:-len('sentpkg/__init__.py')] + 'PWNED_IMPORT', 'w').write('imported')\n",
        "sentpkg/sub.py": "open(__file__[:-len('sentpkg/sub.py')] + 'PWNED_IMPORT', 'w').write('imported')\nThing = 1\n",
        # first on PATH during every operation (made executable by simulate)
        "bin/black": "#!/bin/sh\ntouch PWNED\ncat\n",
    }
    return files


def concrete(text, world):
    """Input text is used as drawn: it never contains the world root (see the note at the payload pools)."""
    assert "{ROOT}" not in text
    return text


# ------------------------------------------------------------------------------- op construction
def build_pure(op, spec, world):
    """pureops JSON for one in-memory operation on the spec (payload text made concrete)."""
    what = op["what"]
    c = lambda lines: concrete("\n".join(lines) + "\n", world)  # noqa: E731
    if what in ("parse_docstring", "parse_docstring_raw", "docstring_roundtrip"):
        text = concrete("\n".join(docstring_lines(spec, op["style"])), world)
        opts = ({}, {"parse_original_whitespace": True, "infer_type": True}, {"emit_default_doc": False},
                {"infer_type": True, "emit_default_prop": False})[op.get("variant", 0)]
        if what == "docstring_roundtrip":
            return {"kind": what, "text": text, "parse_opts": opts,
                    "opts": {"docstring_format": op["emit_style"], "indent_level": 1}}
        return {"kind": what, "text": text, "opts": opts}
    sources = {
        "function": lambda: HEADER + render_function(spec),
        "class_": lambda: HEADER + render_class(spec),
        "argparse_function": lambda: HEADER + render_argparse(spec),
        "sqlalchemy": lambda: HEADER + render_sqlalchemy(spec),
        "sqlalchemy_hybrid": lambda: HEADER + render_sqlalchemy(spec),
        "sqlalchemy_table": lambda: render_sqlalchemy_table(spec),
        "pydantic": lambda: HEADER + render_pydantic(spec),
    }
    parser = {"parse_function": "function", "parse_class": "class_", "parse_argparse": "argparse_function",
              "parse_sqlalchemy": "sqlalchemy", "parse_sqlalchemy_hybrid": "sqlalchemy_hybrid",
              "parse_sqlalchemy_table": "sqlalchemy_table", "parse_pydantic": "pydantic"}.get(what)
    if parser:
        o = {"kind": "parse_source", "parser": parser, "source": c(sources[parser]())}
        if what == "parse_class" and op.get("merge_inner_function"):
            o["opts"] = {"merge_inner_function": op["merge_inner_function"]}
        return o
    if what == "parse_json_schema":
        return {"kind": "parse_source", "parser": "json_schema", "source": concrete(render_json_schema(spec), world)}
    if what == "parse_route":
        return {"kind": "parse_route", "source": concrete(render_route(spec), world)}
    eopts = {}
    if op.get("emitter") in ("docstring", "function", "class_", "argparse_function", "sqlalchemy", "sqlalchemy_table",
                             "sqlalchemy_hybrid"):
        eopts = {"docstring_format": op["emit_style"], "word_wrap": op["word_wrap"]}
    if what == "emit":
        return {"kind": "emit", "emitter": op["emitter"], "opts": eopts,
                "spec": json.loads(concrete(json.dumps(render_ir_spec(spec)), world))}
    if what == "parse_emit":
        return {"kind": "parse_emit", "parser": op["parser"], "source": c(sources[op["parser"]]()),
                "emitter": op["emitter"], "opts": eopts}
    raise ValueError(what)


def build_cmd(op, spec, idx):
    """-> (ops.invoke op dict, declared outputs [rel], exemption dict, files to remove first [rel])"""
    k = op["k"]
    if k == "doctrans":
        flag = "--type-annotations" if op["type_annotations"] else "--no-type-annotations"
        return ({"cmd": "cli", "argv": ["doctrans", "--filename", "{ROOT}/m.py", "--format", op["format"], flag]},
                ["m.py"], {}, [])
    if k == "gen":
        out = "out%d.%s" % (idx, "json" if op["emit"] == "json_schema" else "py")
        src = {"sqlalchemy": "sa.py", "sqlalchemy_table": "sa.py", "pydantic": "pyd.py"}.get(op["parse"], "m.py")
        argv = ["gen", "--name-tpl", "{name}Gen", "--input-mapping", "{ROOT}/" + src, "--parse", op["parse"],
                "--emit", op["emit"], "-o", "{ROOT}/" + out]
        argv += {"imports_from_file": ["--imports-from-file", "{ROOT}/imp.py"],
                 "decorator": ["--decorator", "exit()"], "emit_call": ["--emit-call"],
                 "infer_imports": ["--emit-and-infer-imports"], "no_word_wrap": ["--no-word-wrap"]}.get(op["extra"], [])
        return {"cmd": "cli", "argv": argv}, [out], {}, [out]
    if k == "prepend":
        out = "out%d.py" % idx
        argv = ["gen", "--name-tpl", "{name}Gen", "--input-mapping", "{ROOT}/m.py", "--parse", op["parse"],
                "--emit", op["emit"], "-o", "{ROOT}/" + out, "--prepend", op["text"], "--imports-from-file",
                "{ROOT}/imp.py"]
        return {"cmd": "cli", "argv": argv}, [out], {"prepend": op["text"]}, [out]
    if k == "sync":
        argv = ["sync", "--class", "{ROOT}/cls.py", "--class-name", "Cfg", "--function", "{ROOT}/fn.py",
                "--function-name", "run", "--argparse-function", "{ROOT}/ap.py", "--argparse-function-name",
                "set_cli_args", "--truth", op["truth"]]
        missing = {"class": "cls.py", "function": "fn.py", "argparse_function": "ap.py"}.get(op.get("missing"))
        rm = [missing] if missing and op["missing"] != op["truth"] else []
        return {"cmd": "cli", "argv": argv}, ["cls.py", "fn.py", "ap.py"], {}, rm
    if k == "sync_properties":
        pname = spec["params"][0]["name"] if spec["params"] else "missing"
        argv = ["sync_properties", "--input-filename", "{ROOT}/props_in.py", "--input-param",
                op["input_param"].replace("{p}", pname), "--output-filename", "{ROOT}/props_out.py", "--output-param",
                op["output_param"]]
        if op.get("wrap"):
            argv += ["--output-param-wrap", op["wrap"]]
        return {"cmd": "cli", "argv": argv}, ["props_out.py"], {}, []
    if k == "input_eval":
        argv = ["sync_properties", "--input-eval", "--input-filename", "{ROOT}/ev_in.py", "--input-param", "VALUES",
                "--output-filename", "{ROOT}/props_out.py", "--output-param", "Out.kind"]
        return {"cmd": "cli", "argv": argv}, ["props_out.py"], {"input_eval": "ev_in.py"}, []
    raise ValueError(k)


# ---------------------------------------------------------------------------------------- oracle
def _dunder(name):
    return isinstance(name, str) and len(name) > 4 and name.startswith("__") and name.endswith("__")


def scan_code(code, out=None):
    """What the bytecode of an input-derived code object must not contain (G3), recursively."""
    out = [] if out is None else out
    for ins in dis.get_instructions(code):
        n = ins.opname
        if n.startswith("CALL") and not n.startswith("CALL_INTRINSIC"):
            out.append(("call", n))
        elif n == "PRECALL":
            out.append(("call", n))
        elif n in ("IMPORT_NAME", "IMPORT_STAR"):
            out.append(("import", str(ins.argval)))
        elif n in ("LOAD_ATTR", "LOAD_METHOD", "LOAD_SUPER_ATTR") and _dunder(ins.argval):
            out.append(("dunder", str(ins.argval)))
    for c in code.co_consts:
        if isinstance(c, types.CodeType):
            scan_code(c, out)
    return out


def _mentions_marker(code):
    for c in code.co_consts:
        if isinstance(c, str) and any(m in c for m in MARKERS):
            return True
        if isinstance(c, types.CodeType) and _mentions_marker(c):
            return True
    return any(n in PAYLOAD_MODULES or n == SENT_MOD for n in code.co_names)


def _inside(world, fn):
    if not isinstance(fn, str) or not fn or fn.startswith("<"):
        return False
    if os.path.isabs(fn):
        return world.contains(fn)
    return os.path.lexists(os.path.join(world.root, fn))


def _is_cdd(fn):
    return isinstance(fn, str) and fn.startswith(CDD_DIR)


def _synthetic(fn):
    """A code filename that names no module file: '<string>', '<unknown>', '<ast>', '', or any made-up label."""
    if not isinstance(fn, str):
        return False
    if fn == "" or fn.startswith("<"):
        return not fn.startswith("<frozen")
    return not os.path.isfile(fn) if os.path.isabs(fn) else True


def input_derived(world, ev):
    """Was this executed code object compiled from text/AST that came out of the analysed input?  (module files of
    cdd, black and the standard library executed by an import are not; neither is <string> code that stdlib
    internals such as namedtuple build for themselves, unless it mentions a sentinel marker)"""
    code = ev.get("code")
    fn = getattr(code, "co_filename", None)
    if fn is None:
        return False
    if _inside(world, fn):
        return True
    if _synthetic(fn):
        origin = ev.get("origin_file") or ""
        if _is_cdd(origin) or _synthetic(origin) or _inside(world, origin):
            return True
        return _mentions_marker(code)
    return False


def _prepend_imports(text):
    """(code object, module names) of what gen evaluates for --prepend: the import statements of the user text."""
    try:
        tree = ast.parse(text.strip())
    except SyntaxError:
        return None, ()
    body = [n for n in tree.body if isinstance(n, (ast.Import, ast.ImportFrom))]
    names = []
    for n in body:
        if isinstance(n, ast.Import):
            names += [a.name for a in n.names]
        else:
            names.append(n.module or "")
            names += ["%s.%s" % (n.module, a.name) for a in n.names]
    src = ast.unparse(ast.fix_missing_locations(ast.Module(body=body, type_ignores=[])))
    return compile(src, "<string>", "exec"), tuple(names)


def _same_code(a, b):
    return a is not None and b is not None and a.co_code == b.co_code and a.co_names == b.co_names \
        and a.co_consts == b.co_consts


_G1_EXCLUDED = ("os.putenv", "os.unsetenv", "os.kill", "os.killpg")


def judge(world, label, o, outputs, exempt, snap_before, snap_after, mods_before):
    """G1..G5 for one finished operation (whatever its outcome).  Returns (violations, observations)."""
    v = []
    obs = {"exec_docstring_parsers": 0, "exec_with_input_name": 0, "literal_eval_default": 0,
           "literal_eval_default_payload": 0, "input_eval_exec": 0, "prepend_exec": 0, "exec_input_derived": 0,
           "writes": []}
    outs = set(outputs)
    ev_abs = os.path.join(world.root, exempt["input_eval"]) if exempt.get("input_eval") else None
    pre_code, pre_names = _prepend_imports(exempt["prepend"]) if exempt.get("prepend") else (None, ())

    def add(clause, detail, **sig):
        v.append({"clause": clause, "detail": "%s: %s" % (label, detail), "sig": sig})

    for ev in o.events:
        kind = ev["kind"]
        site = ev.get("site")
        if kind in ("spawn", "net"):
            name = ev.get("event", kind)
            if name in _G1_EXCLUDED or name.startswith("ctypes."):
                continue
            add("G1", "%s audit event %s%s requested at %s (cdd site %s)" % (
                kind, name, ev.get("path"), _short_origin(world, ev.get("origin")), site),
                what=kind, event=name, site=site)
        elif kind == "import":
            origin = ev.get("origin_file") or ""
            mod = ev.get("path")
            from_input = bool(origin) and (_inside(world, origin) or _synthetic(origin))
            if from_input:
                if ev_abs is not None and os.path.abspath(os.path.join(world.root, origin)) == ev_abs:
                    continue
                if origin == "<string>" and mod in pre_names:
                    continue
                add("G2", "import of %r requested by code from %s (cdd site %s)" % (
                    mod, _short_origin(world, origin), site), what="import_from_input_code", module=str(mod), site=site)
        elif kind == "exec":
            code = ev.get("code")
            fn = getattr(code, "co_filename", "")
            origin = ev.get("origin_file") or ""
            if origin.endswith("cdd/shared/docstring_parsers.py") and fn == "<string>":
                obs["exec_docstring_parsers"] += 1
                if any(n in ("sys", "ast", "cdd", "open", "exec", "print", "exit", "collections", "deepcopy")
                       for n in code.co_names):
                    obs["exec_with_input_name"] += 1
            if not input_derived(world, ev):
                continue
            obs["exec_input_derived"] += 1
            if ev_abs is not None and _inside(world, fn) and \
                    os.path.abspath(os.path.join(world.root, fn)) == ev_abs and \
                    origin.endswith("cdd/compound/sync_properties.py"):
                obs["input_eval_exec"] += 1
                continue
            if pre_code is not None and fn == "<string>" and origin.endswith("cdd/compound/gen.py") and \
                    _same_code(code, pre_code):
                obs["prepend_exec"] += 1
                continue
            bad = scan_code(code)
            if bad:
                add("G3", "input-derived code executed at %s: file %s, names %s, forbidden %s" % (
                    site or _short_origin(world, ev.get("origin")), _short_origin(world, fn), list(code.co_names)[:8],
                    sorted(set("%s:%s" % b for b in bad))[:6]),
                    what="exec_input_derived_code", site=site, where=_where(world, fn))
        elif kind == "compile":
            if (site or "").startswith("cdd/shared/defaults_utils.py:") and ev.get("path") == "<unknown>":
                obs["literal_eval_default"] += 1
                src = ev.get("src") or ""
                if "(" in src[1:] and any(m in src for m in ("PWNED", "__import__", "exit", "exec", "eval")):
                    obs["literal_eval_default_payload"] += 1
        if kind in ("open_w", "open_raw_w") or (kind in seams.MUTATING and kind != "close_w"):
            path = ev.get("path")
            target = path if ev.get("inside") else "<outside>"
            obs["writes"].append("%s:%s" % (kind, target))
            if not ev.get("inside") or path not in outs:
                add("G4", "%s of %s at %s is not a declared output %s" % (kind, path, site, sorted(outs)),
                    what="write_event", event=kind, site=site, target=target)
            if kind == "rename" and ev.get("dst") is not None:
                dst = ev["dst"]
                if not world.contains(dst) or world.rel(dst) not in outs:
                    add("G4", "rename onto %s at %s is not a declared output" % (dst, site),
                        what="write_event", event="rename_dst", site=site,
                        target=world.rel(dst) if world.contains(dst) else "<outside>")
    created, modified, deleted = SimWorld.diff(snap_before, snap_after)
    stray = [p for p in created + modified + deleted if p not in outs and p not in SENT_FILES]
    if stray:
        add("G4", "files changed although not declared outputs: created %s modified %s deleted %s" % (
            [p for p in created if p in stray], [p for p in modified if p in stray], [p for p in deleted if p in stray]),
            what="world_changed", paths=stray[:4])
    # G2b: first import of a module named in a payload
    for m in PAYLOAD_MODULES:
        if m in sys.modules and m not in mods_before:
            add("G2", "module %r named in a payload was imported" % m, what="payload_module_imported", module=m)
    # G5: sentinels
    for s in SENT_FILES:
        if s in snap_after and s not in snap_before:
            add("G5", "sentinel file %s was created" % s, what="sentinel_file", name=s)
    if os.environ.get(SENT_ENV) is not None:
        add("G5", "sentinel environment variable %s was set" % SENT_ENV, what="sentinel_env")
    if getattr(_sentinel_module(), "touched", 0) != 0:
        add("G5", "attribute 'touched' of the harness module %s was changed" % SENT_MOD, what="sentinel_attr")
    return v, obs


def _where(world, fn):
    if _inside(world, fn):
        return world.rel(fn) if os.path.isabs(fn) else fn
    return fn if _synthetic(fn) and fn.startswith("<") else "other"


def _short_origin(world, origin):
    if not isinstance(origin, str):
        return str(origin)
    return origin.replace(world.root, "{ROOT}").replace(CDD_DIR, "cdd/")


def reset_sentinels(world):
    """Bring the harness-side sentinels back (after they were judged) so that one touch is one violation."""
    os.environ.pop(SENT_ENV, None)
    _sentinel_module().touched = 0
    for m in PAYLOAD_MODULES + ("colorsys",):
        sys.modules.pop(m, None)
    for s in SENT_FILES:
        if world.exists(s):
            world.remove(s)


# ------------------------------------------------------------------------------------ simulation
_warm = [False]
WARM_SPEC = {"doc": "Do the thing.", "style": "rest", "module_code": [], "decorators": [], "class_body_call": False,
             "returns": {"typ": "int", "doc": "the result", "value": "5"},
             "params": [{"name": "alpha", "typ": "int", "typ_in": "doc", "default": "5", "doc": "int or str",
                         "doc_default": "5", "announce": 0},
                        {"name": "beta", "typ": "str", "typ_in": "sig", "default": None, "doc": "the first thing",
                         "doc_default": None, "announce": 0}]}


def warm_up():
    """Import everything and run one throw-away operation of every kind, so that step counts and event logs of the
    counted operations contain no first-call lines (DESIGN.md §2.8)."""
    if _warm[0]:
        return
    import warnings
    warnings.simplefilter("ignore")
    proc.import_all()
    _sentinel_module()
    w = SimWorld(tag="c17warm")
    try:
        w.write_files({k: concrete(t, w) for k, t in render_files(WARM_SPEC).items()})
        for what in PURE_KINDS:
            for style in (STYLES if what in ("parse_docstring", "parse_docstring_raw", "docstring_roundtrip", "emit")
                          else STYLES[:1]):
                base = {"k": "pure", "what": what, "style": style, "emit_style": style, "variant": 1, "word_wrap": True}
                variants = [base]
                if what in ("emit", "parse_emit"):
                    variants = [dict(base, emitter=e, parser=p) for e in pureops.EMITTERS
                                for p in (pureops.SOURCE_PARSERS if what == "parse_emit" else ("function",))]
                for pop in variants:
                    po = build_pure(pop, WARM_SPEC, w)
                    ops.invoke(w, {"cmd": "pure"}, call=lambda po=po: pureops.run(po), monitor=True, trace=True, cwd_on_path=True)
        i = 0
        for cmd in ([{"k": "doctrans", "format": f, "type_annotations": t} for f in STYLES for t in (True, False)]
                    + [{"k": "gen", "parse": p, "emit": e, "extra": x} for p in GEN_PARSE for e in GEN_EMIT
                       for x in ("", "imports_from_file")]
                    + [{"k": "sync", "truth": t, "missing": ""} for t in ("class", "function", "argparse_function")]
                    + [{"k": "sync_properties", "input_param": a, "output_param": b, "wrap": c}
                       for a in ("src.{p}", "In.{p}", "VALUE") for b in ("Out.kind", "dst.arg")
                       for c in (None, "Optional[{output_param}]")]
                    + [{"k": "input_eval"}, {"k": "prepend", "text": "import colorsys\n", "parse": "class", "emit": "class"}]):
            i += 1
            iop, outs, ex, rm = build_cmd(cmd, WARM_SPEC, i)
            for r in rm:
                w.remove(r)
            ops.invoke(w, iop, monitor=True, trace=True, cwd_on_path=True)
            w.write_files({k: concrete(t, w) for k, t in render_files(WARM_SPEC).items()})
        reset_sentinels(w)
    finally:
        w.destroy()
    _warm[0] = True


_ADDR = re.compile(r"0x[0-9a-fA-F]{6,}")


def _world_digest(world, snap):
    """Digest of the tree with the (pid-dependent) world root spelt symbolically: absolute paths never enter a digest."""
    out = []
    for rel in sorted(snap):
        ent = snap[rel]
        if ent[0] == "f":
            text = world.read(rel) or ""
            # object addresses that cdd writes into its output (`<ast.Call object at 0x7f...>`, the defect recorded as
            # F-C10-2, reachable here with black absent) differ from process to process: that is C10's subject, and would
            # otherwise make this check's outcome digest non-reproducible
            out.append((rel, "f", digest_of(_ADDR.sub("0x?", text.replace(world.root, "{ROOT}"))), ent[3]))
        else:
            out.append((rel, ent[0], ent[2] if ent[0] == "l" else "", ent[3]))
    return digest_of(out)


def _resolve_fault(world, f, reh):
    """Concrete fault dict from a drawn fraction and the fault-free traced rehearsal."""
    if f["seam"] == "line":
        if reh.steps <= 0:
            return None
        return {"seam": "line", "k": 1 + int(f["frac"] * reh.steps), "exc": f["exc"]}
    io = reh.io_events()
    if not io:
        return None
    ev = io[int(f["frac"] * len(io))]
    errs = seams.ERRNOS_FOR.get(ev["kind"], ("EIO",))
    flt = {"seam": "io", "at": ev["io"], "kind": "err", "errno": errs[f["errno_i"] % len(errs)]}
    if ev["kind"] == "close_w":
        flt["keep"] = f.get("keep", 0)
    return flt


def _slots(spec):
    s = {"payload_in_default": 0, "payload_in_type": 0, "payload_in_prose": 0, "payload_in_decorator": 0,
         "module_level_side_effect_code_present": 0}
    for p in spec["params"]:
        if is_payload(p["default"]) or p.get("doc_default") not in (None, "5", "'a'", "True", "None"):
            s["payload_in_default"] += 1
        if is_payload(p["typ"]):
            s["payload_in_type"] += 1
        if is_payload(p["doc"]):
            s["payload_in_prose"] += 1
    if spec.get("returns") and is_payload(spec["returns"]["typ"]):
        s["payload_in_type"] += 1
    if spec.get("decorators"):
        s["payload_in_decorator"] += 1
    if spec.get("module_code") or spec.get("class_body_call"):
        s["module_level_side_effect_code_present"] += 1
    return s


def simulate(plan):
    warm_up()
    res = SimResult()
    res.plan_digest = digest_of(plan)
    stats = {"commands": 0, "steps": 0, "outcomes": {}, "faults_fired": {}, "fault_sites": [], "probes": {},
             "world_states": [], "evaluations": 0, "extra": {}}
    res.stats = stats
    probe = stats["probes"]

    def bump(d, k, n=1):
        if n:
            d[k] = d.get(k, 0) + n

    spec = plan["spec"]
    world = SimWorld(tag="c17")
    files = {k: concrete(t, world) for k, t in render_files(spec).items()}
    for name in ("m.py", "sa.py", "pyd.py", "cls.py", "fn.py", "ap.py", "props_in.py", "ev_in.py"):
        try:
            ast.parse(files[name])
        except SyntaxError as e:  # generator defect, never a finding
            world.destroy()
            raise AssertionError("generator produced invalid Python in %s: %s\n%s" % (name, e, files[name]))
    world.write_files(files)
    os.chmod(world.p("bin/black"), 0o755)
    old_path = os.environ.get("PATH", "")
    os.environ["PATH"] = world.p("bin") + os.pathsep + old_path
    black = bool(plan.get("black", True))
    if not black:
        bump(probe, "black_absent")
    slots = _slots(spec)
    has_payload = any(slots.values())
    history = []
    completed_with_payload = False
    torn = set()
    try:
        seq = [("pure", i, op) for i, op in enumerate(plan["pure"])] + [("cmd", i, op) for i, op in enumerate(plan["cmds"])]
        for what, idx, op in seq:
            # ---- build
            if what == "pure":
                pure = build_pure(op, spec, world)
                label = "pure:%s" % (op["what"] if op["what"] not in ("emit", "parse_emit") else
                                     "%s:%s%s" % (op["what"], op.get("parser", "") + ">" if op["what"] == "parse_emit" else "",
                                                  op["emitter"]))
                iop, outputs, exempt, rm = {"cmd": "pure"}, [], {}, []
                call = (lambda pure=pure: pureops.run(pure))
            else:
                iop, outputs, exempt, rm = build_cmd(op, spec, idx)
                label = op["k"] if op["k"] not in ("gen", "prepend") else "%s:%s>%s" % (op["k"], op["parse"], op["emit"])
                call = None
                for r in rm:
                    world.remove(r)
                if any(world.read(t) is not None and t in torn for t in ("m.py", "cls.py", "fn.py", "ap.py", "props_out.py")):
                    bump(probe, "torn_input_reused")
            f = op.get("fault")
            runs = [None]
            cp = None
            if f is not None:
                cp = world.checkpoint()
                runs = [None, f]
            for fi, fplan in enumerate(runs):
                flt = None
                if fplan is not None:
                    flt = _resolve_fault(world, fplan, reh)
                    world.restore(cp)
                    reset_sentinels(world)
                    if flt is None:
                        continue
                mods_before = set(m for m in PAYLOAD_MODULES if m in sys.modules)
                snap_before = world.snapshot()
                # the step seam (sys.settrace) is on only where it is needed: in the rehearsal of a line fault (to
                # learn the extent) and in the run that carries the line fault
                traced = len(runs) > 1 and fi == 0 and f["seam"] == "line"
                o = ops.invoke(world, iop, call=call, monitor=True, trace=traced, faults=[flt] if flt else None, cwd_on_path=True,
                               budget=STEP_BUDGET if traced else None, wall_s=60, black=black)
                if fi == 0:
                    reh = o
                snap_after = world.snapshot()
                stats["commands"] += 1
                stats["evaluations"] += 1
                stats["steps"] += o.steps
                tag = label.split(":")[0] if what == "cmd" else "pure"
                bump(stats["outcomes"], "%s%s:%s" % (tag, ":faulted" if flt else "", o.kind))
                viols, obs = judge(world, label, o, outputs, exempt, snap_before, snap_after, mods_before)
                if flt:
                    for x in viols:
                        x["detail"] += " [after injected fault %s]" % json.dumps(flt, sort_keys=True)
                res.violations += viols
                # ---- accounting from what was observed
                bump(probe, "eval_of_doc_derived_type_string_observed", obs["exec_docstring_parsers"])
                bump(probe, "eval_of_type_string_with_input_name", obs["exec_with_input_name"])
                bump(probe, "literal_eval_default_path", obs["literal_eval_default"])
                bump(probe, "literal_eval_default_path_with_payload", obs["literal_eval_default_payload"])
                bump(probe, "input_eval_exception_exercised", obs["input_eval_exec"])
                bump(probe, "prepend_exception_exercised", obs["prepend_exec"])
                if what == "pure" and op["what"] == "parse_route":
                    bump(probe, "route_parser_ops")
                if what == "pure":
                    bump(probe, "pure_emit_ops" if op["what"] in ("emit", "parse_emit", "docstring_roundtrip") else
                         "pure_parse_ops")
                else:
                    bump(probe, {"gen": "gen_from_file", "prepend": "gen_from_file", "input_eval": "sync_properties"}.get(
                        op["k"], op["k"]))
                    created, modified, _ = SimWorld.diff(snap_before, snap_after)
                    if op["k"] in ("gen", "prepend") and o.ok and created:
                        bump(probe, "gen_wrote_output")
                    if op["k"] == "doctrans" and o.ok and modified:
                        bump(probe, "doctrans_rewrote_file")
                for k_, n_ in slots.items():
                    bump(probe, k_, n_)
                for fr in o.fired:
                    if fr["seam"] == "io":
                        bump(stats["faults_fired"], "%s@%s" % (fr.get("errno", "err"), fr["event"]))
                        stats["fault_sites"].append("%s:%s" % (fr["event"], fr.get("site")))
                        bump(probe, "io_fault_fired")
                    else:
                        bump(stats["faults_fired"], "exc_at_line:" + fr["exc"])
                        stats["fault_sites"].append("%s:%d" % (fr["file"], fr["line"]))
                        bump(probe, "error_path_injection_fired")
                if o.ok and has_payload:
                    completed_with_payload = True
                if flt and not o.ok:
                    for t in outputs:
                        if snap_after.get(t) != snap_before.get(t):
                            torn.add(t)
                history.append({"op": label, "fault": flt, "outcome": {"kind": o.kind, "exc": o.exc_type},
                                "input_derived_exec": obs["exec_input_derived"], "writes": obs["writes"],
                                "world": _world_digest(world, snap_after),
                                "violations": sorted(set("%s/%s" % (x["clause"], x["sig"].get("what")) for x in viols))})
                stats["world_states"].append(history[-1]["world"])
                reset_sentinels(world)
    finally:
        os.environ["PATH"] = old_path
        reset_sentinels(world)
        world.destroy()
    res.trace = {"kind": "c17-plan", "plan": plan,
                 "files": {k: v for k, v in render_files(spec).items() if k in ("m.py",)}}
    res.digest = digest_of(history)
    if os.environ.get("CDDSIM_C17_DEBUG"):   # determinism debugging only: the recorded history of every run
        with open("%s-%d.jsonl" % (os.environ["CDDSIM_C17_DEBUG"], os.getpid()), "a") as f_:
            f_.write(json.dumps({"plan": res.plan_digest, "digest": res.digest, "history": history, "fullplan": plan}, default=repr) + "\n")
    res.nontrivial = completed_with_payload and any(probe.values())
    res.sample = {"m.py": render_files(spec)["m.py"][:1800], "history": history[:12]}
    return res


# ------------------------------------------------------------------------------ runner interface
def plan(tier, seed, scale=1.0):
    per = int({"quick": 240, "thorough": 5000}[tier] * scale)
    return [{"seed": seed * 1000 + w, "n": max(per, 1), "tier": tier} for w in range(16)]


def work(task):
    known = load_known(ID)
    return explore(plans(), simulate, task["seed"], task["n"], known, batch=max(task["n"] // 3, 1) if task["tier"] == "quick" else 100,
                   max_classes=3, max_shrink_runs=150, max_shrink_s=25.0)


def replay(trace):
    return simulate(trace["plan"]).violations
