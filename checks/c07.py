"""C07 — doctrans changes only docstrings and annotations; on error the file is left byte-identical.

One file on the simulated disk, a history of 1..3 doctrans commands with drawn configurations, and for
each command an *enumeration* of where it can fail (DESIGN.md §3 C07): every fault kind at every seam
call, an injected exception at the first / middle / last line event of every interval between seam
calls, every line event after the first write-mode open, plus seeded line events.
"""
import ast
import io
import re
import tokenize

from hypothesis import strategies as st

from cddsim import gen, hyp, ops, proc, seams
from cddsim.hyp import SimResult, digest_of, explore
from cddsim.runner import load_known
from cddsim.world import SimWorld

ID = "C07"
LEVEL = "fault_enumeration"
RULE = ("Hypothesis-drawn Python modules (functions, async functions, methods, nested definitions, classes; defaults, "
        "annotations, *args, **kwargs, keyword-only, multi-line headers, decorators; docstrings in rest/google/numpydoc "
        "or none; comments; simple bodies) written to the simulated disk, then a history of 1..3 doctrans commands "
        "(format x type-annotation flag x word-wrap; CLI entry where the CLI allows the combination, SDK entry "
        "otherwise). Fault-free commands are judged by A1-A4; for the faulted command every seam call gets every "
        "applicable I/O error (and torn closes with keep in {0, half, all-but-one}), every interval between seam calls "
        "gets an injected exception at its first/middle/last line event, every line event after the first write-open "
        "is injected, plus seeded line events; A5 is judged after each. Non-trivial = the command rewrote the file "
        "(or a fault fired) and a reach probe fired; distinct = distinct outcome digest.")
ASSUMPTIONS = [
    "faults are one-shot (a device that keeps failing cannot be restored by any in-place writer)",
    "A5 covers failures reported as Exception subclasses (OSError, RuntimeError, MemoryError, RecursionError); "
    "process kill and KeyboardInterrupt are not 'fails with an error'",
    "a value-less `x: T` may stay or become `x = None` (ambiguity in 'variable annotations are erased')",
    "lines holding variable annotations / type comments are exempt from the byte-identity clause A4",
    "one-line definitions (`def f(): return 1`) and comments inside a parameter list are listed known findings and "
    "are generated only rarely",
]
REAL = ["cdd (all modules, working tree)", "cdd.__main__.main / cdd.compound.doctrans.doctrans", "CPython ast/tokenize",
        "tmpfs file system"]
STUBBED = ["durability of the write-mode file object (SimFile)", "OS error returns (synthetic OSError)",
           "asynchronous failures (exception raised by the line-event seam)"]
FORMATS = ("rest", "google", "numpydoc")
STEP_BUDGET = 3000000   # non-termination is C11's subject; here it only stops the history


def probes():
    return ["file_rewritten", "header_rewritten", "header_with_defaults_rewritten", "header_with_star_rewritten",
            "docstring_replaced", "docstring_added", "async_def", "nested_def", "decorated_def", "method",
            "file_unchanged", "io_fault_fired", "line_fault_fired", "fault_after_write_open", "second_pass",
            "multiline_header", "colon_in_default", "backslash_in_docstring", "docstring_only_body",
            "types_only_docstring", "header_over_100_columns"] + [
        "lexical_shape_" + x for x in SHAPES + ("utf8_nonascii", "latin1_cookie")]


# ------------------------------------------------------------------------------------ generators
BODY_STMTS = (
    "total = {a} + 1", "print({a})", "value = [{a}, {a}]", "if {a}:\n    value = None", "# body comment about {a}",
    "result = {{'k': {a}}}", "for item in range(3):\n    print(item)  # loop", "x, y = 1, 2", "name = str({a})  # trailing",
    "assert {a} is not None", "with open('f') as fh:\n    data = fh.read()", "try:\n    pass\nexcept ValueError:\n    raise",
    "lam = lambda q=1, *r, **s: q",
)
DECORATORS = ("staticmethod", "functools.wraps(print)", "cache", "deco(1, key='v')")


@st.composite
def func_item(draw, depth=0, method=False, used=None):
    used = used if used is not None else set()
    free = [n for n in gen.FUNC_NAMES + ("helper", "inner", "step_one", "finish") if n not in used]
    name = draw(st.sampled_from(free))
    used.add(name)
    iface = draw(gen.interface_spec(name=name, min_params=0, max_params=4))
    pnames = {p["name"] for p in iface["params"]}
    kwonly = []
    if draw(st.integers(0, 3)) == 3:
        for kn in draw(st.lists(st.sampled_from(("strict", "timeout", "retries", "dry")), min_size=1, max_size=2, unique=True)):
            if kn not in pnames:
                kwonly.append(draw(gen.param_spec(kn, types=gen.SIMPLE_TYPES, force_default=draw(st.booleans()))))
    vararg = draw(st.sampled_from((None, None, None, "args", "rest")))
    kwarg = draw(st.sampled_from((None, None, None, "kwargs", "extra")))
    style = draw(st.sampled_from(("rest", "rest", "google", "numpydoc", "none")))
    # "both": types in the signature and in the docstring; "differ": the two disagree (the header's
    # annotation is then *replaced*, not added or removed — a separate path of the write-back)
    types_in = draw(st.sampled_from(("doc", "sig", "doc", "none", "both", "differ")))
    ref = iface["params"][0]["name"] if iface["params"] else "None"
    body = [s.format(a=ref) for s in draw(st.lists(st.sampled_from(BODY_STMTS), min_size=0, max_size=3))]
    if iface["params"] and draw(st.integers(0, 5)) == 5:
        # defaults whose source text contains ':' (string, dict, lambda) or nested parentheses
        j = draw(st.integers(0, len(iface["params"]) - 1))
        for p_ in iface["params"][j:]:
            if p_.get("default") is None:
                p_["default"] = "None"
        iface["params"][j]["default"] = draw(st.sampled_from(("'a:b'", "{'k': 1}", "lambda q: q", "(1, (2, 3))", "'x)'")))
        iface["params"][j]["odd_default"] = True
    if iface["params"] and draw(st.integers(0, 6)) == 6:
        # a header far longer than any line-length limit whose string default contains spaces (a writer that re-flows
        # the header must not break inside the literal)
        j = draw(st.integers(0, len(iface["params"]) - 1))
        for p_ in iface["params"][j:]:
            if p_.get("default") is None:
                p_["default"] = "None"
        iface["params"][j]["default"] = repr(draw(st.sampled_from(LONG_DEFAULTS)))
        iface["params"][j]["typ"] = "str"
        iface["params"][j]["long_default"] = True
    if iface["params"] and draw(st.integers(0, 7)) == 7:
        iface["params"][0]["doc"] = iface["params"][0]["doc"] + " matching \\\\d+ digits"
    item = {"kind": "func", "iface": iface, "style": style, "types_in": types_in,
            "doc_only": draw(st.integers(0, 7)) == 7,
            # a docstring that carries nothing but :type:/:rtype: lines (no summary, no descriptions)
            "types_only_doc": draw(st.integers(0, 9)) == 9,
            "async": draw(st.integers(0, 5)) == 5, "decorators": draw(st.lists(st.sampled_from(DECORATORS), max_size=1))
            if draw(st.integers(0, 3)) == 3 else [],
            "multiline": draw(st.integers(0, 3)) == 3, "vararg": vararg, "kwonly": kwonly, "kwarg": kwarg, "body": body,
            "nested": None, "comment_before": draw(st.sampled_from((None, None, "# explains the next definition"))),
            "header_comment": draw(st.integers(0, 2)) == 2, "one_line": False, "method": method,
            "first": (draw(st.sampled_from(("self", "self", "cls"))) if method else None)}
    if depth == 0 and draw(st.integers(0, 4)) == 4:
        item["nested"] = draw(func_item(depth=1, used=used))
    if draw(st.integers(0, 11)) == 11:
        # `def f(...): return 1` — a listed known finding (F-C07-3); drawn rarely so that it stays replayed
        item.update({"one_line": True, "nested": None, "body": [], "multiline": False})
    return item


@st.composite
def class_item(draw, used):
    free = [n for n in gen.CLASS_NAMES if n not in used]
    name = draw(st.sampled_from(free))
    used.add(name)
    attrs = draw(st.lists(st.sampled_from(gen.PARAM_NAMES[:10]), max_size=3, unique=True))
    mused = set()
    return {"kind": "class", "name": name, "bases": draw(st.sampled_from(("object", "", "Base", "Base, Mixin"))),
            "doc": draw(st.sampled_from((None, "plain", "cvar"))),
            "attrs": [draw(gen.param_spec(a, types=gen.SIMPLE_TYPES, force_default=True)) for a in attrs],
            "methods": draw(st.lists(func_item(depth=1, method=True, used=mused), max_size=2)),
            "decorators": ["dataclass"] if draw(st.integers(0, 5)) == 5 else [],
            "summary": draw(gen.sentence(3, 6))}


@st.composite
def module_spec(draw):
    used = set()
    n = draw(st.integers(1, 4))
    items = []
    for _ in range(n):
        k = draw(st.sampled_from(("func", "func", "func", "class", "stmt")))
        if k == "func":
            items.append(draw(func_item(used=used)))
        elif k == "class":
            if len([n_ for n_ in gen.CLASS_NAMES if n_ not in used]) > 0:
                items.append(draw(class_item(used)))
        else:
            items.append({"kind": "stmt", "text": draw(st.sampled_from((
                "VERSION = '1.0'  # the version", "# a free-standing comment", "LIMIT = 10",
                "if __name__ == '__main__':\n    print('main')", "ITEMS = [\n    1,\n    2,  # two\n]")))})
    return {"items": items, "header": draw(st.sampled_from(("", "# -*- coding: utf-8 -*-", '"""Module docstring."""'))),
            "trailing_newline": draw(st.sampled_from((True, True, True, False)))}


@st.composite
def command(draw):
    c = {"format": draw(st.sampled_from(FORMATS)), "type_annotations": draw(st.booleans()),
         "word_wrap": draw(st.sampled_from((False, False, True)))}
    return c


@st.composite
def plans(draw, n_seeded_lines=12):
    return {"module": draw(module_spec()), "cmds": draw(st.lists(command(), min_size=1, max_size=3)),
            "fault_cmd": draw(st.integers(0, 2)), "line_fracs": draw(st.lists(st.floats(0, 0.9999), min_size=n_seeded_lines,
                                                                              max_size=n_seeded_lines)),
            "exc": draw(st.sampled_from(("RuntimeError", "MemoryError", "OSError", "RecursionError"))),
            # a whole-file lexical shape; each non-None shape is a listed known finding, drawn rarely
            "shape": draw(st.sampled_from((None,) * 9 + SHAPES + ENC_SHAPES))}


SHAPES = ("indent2", "tab", "rawdoc", "comment_before_doc", "crlf", "arrow_default", "def_line_comment")
# encodings: non-ASCII characters in a comment and a string constant, stored as UTF-8 or - declared by a PEP 263 coding
# cookie - as latin-1.  Not known-bad shapes: the unchanged tree converts the first and refuses the second (an error,
# file byte-identical).  The file is always read the way the interpreter reads it (cookie honoured).
ENC_SHAPES = ("utf8_nonascii", "latin1_cookie")
ENC_TAIL = "\n# r\xe9sum\xe9 of the module\nTITLE = 'ol\xe9'\n"
ENC_COOKIE = "# -*- coding: latin-1 -*-\n"
DEF_LINE_COMMENT = "  # trailing on the def line"
SHAPE_COMMENT = "# note placed before the docstring"


def apply_shape(text, shape):
    """Lexical variants of the same program (all valid Python with the same AST, comments aside)."""
    if not shape:
        return text
    if shape in ENC_SHAPES:
        if shape == "latin1_cookie":
            # everything in the file must exist in the declared encoding
            text = text.encode("latin-1", "replace").decode("latin-1")
        return (ENC_COOKIE if shape == "latin1_cookie" else "") + text.rstrip("\n") + "\n\n" + ENC_TAIL
    if shape in ("indent2", "tab"):
        unit = "  " if shape == "indent2" else "\t"
        out, in_doc = [], False
        for ln in text.split("\n"):
            n = len(ln) - len(ln.lstrip(" "))
            out.append(unit * (n // 4) + " " * (n % 4) + ln[n:] if ln.strip() else ln)
        return "\n".join(out)
    if shape == "crlf":
        return text.replace("\n", "\r\n")
    if shape in ("arrow_default", "def_line_comment"):
        import re
        lines = text.split("\n")
        for i, ln in enumerate(lines):
            if re.match(r"^\s*(?:async\s+)?def\s+\w+\(.*\).*:\s*$", ln):
                if shape == "def_line_comment":
                    lines[i] = ln.rstrip() + DEF_LINE_COMMENT
                    break
                new = re.sub(r"(=\s?)'([^']*)'", r"\1'\2->z'", ln, count=1)
                if new != ln:
                    lines[i] = new
                    break
        return "\n".join(lines)
    lines = text.split("\n")
    for i, ln in enumerate(lines):
        if ln.strip() == '\"\"\"' and i and lines[i - 1].rstrip().endswith(":") and "def " in lines[i - 1]:
            if shape == "rawdoc":
                lines[i] = ln.replace('\"\"\"', 'r\"\"\"', 1)
            else:
                lines.insert(i, ln[:len(ln) - len(ln.lstrip())] + SHAPE_COMMENT)
            break
    return "\n".join(lines)


def unshape(text, shape):
    """Inverse of apply_shape on text produced from a shaped file (used for the counterfactual)."""
    if shape in ENC_SHAPES:
        return text.replace(ENC_COOKIE, "").replace(ENC_TAIL, "")
    if shape == "indent2":
        out = []
        for ln in text.split("\n"):
            n = len(ln) - len(ln.lstrip(" "))
            out.append("    " * (n // 2) + " " * (n % 2) + ln[n:] if ln.strip() else ln)
        return "\n".join(out)
    if shape == "tab":
        out = []
        for ln in text.split("\n"):
            n = len(ln) - len(ln.lstrip("\t"))
            out.append("    " * n + ln[n:])
        return "\n".join(out)
    if shape == "crlf":
        return text.replace("\r\n", "\n")
    if shape == "rawdoc":
        return text.replace('r\"\"\"', '\"\"\"')
    if shape == "comment_before_doc":
        return "\n".join(ln for ln in text.split("\n") if ln.strip() != SHAPE_COMMENT)
    if shape == "arrow_default":
        return text.replace("->z'", "'")
    if shape == "def_line_comment":
        return text.replace(DEF_LINE_COMMENT, "")
    if shape == "async_doc_only":
        try:
            tree = ast.parse(text)
        except SyntaxError:
            return text
        lines = text.split("\n")
        adds = []
        for node in ast.walk(tree):
            if isinstance(node, ast.AsyncFunctionDef) and len(node.body) == 1 and isinstance(node.body[0], ast.Expr) \
                    and isinstance(node.body[0].value, ast.Constant) and isinstance(node.body[0].value.value, str):
                adds.append((node.body[0].end_lineno, " " * node.body[0].col_offset + "return None"))
        for ln, txt in sorted(adds, reverse=True):
            lines.insert(ln, txt)
        return "\n".join(lines)
    if shape == "one_line":
        import re
        return re.sub(r"(?m)^(\s*)((?:async\s+)?def\s+\w+\(.*\).*:) return 1$", r"\1\2\n\1    return 1", text)
    return text


# -------------------------------------------------------------------------------------- renderer
LONG_DEFAULTS = ("hello there dear friend of the family and of everybody else who happens to be around today",
                 "%(asctime)s %(levelname)s %(name)s: %(message)s -- written by the worker that handled the request",
                 "a b  c   d    e     f      g       h        i         j          k           l            m")
_OTHER_TYPE = {"int": "float", "float": "int", "str": "int", "bool": "int"}


def render_func(item, indent=""):
    iface = item["iface"]
    inner = indent + "    "
    annotate = item["types_in"] in ("sig", "both", "differ")
    sig = gen.render_signature(iface, annotate=annotate, first=item.get("first"), star_args=item.get("vararg"),
                               kwonly=item.get("kwonly", ()), star_kwargs=item.get("kwarg"))
    ret = iface.get("returns")
    arrow = " -> %s" % ret["typ"] if (annotate and ret) else ""
    lines = []
    if item.get("comment_before"):
        lines.append(indent + item["comment_before"])
    for d in item.get("decorators", ()):
        lines.append("%s@%s" % (indent, d))
    kw = "async def" if item.get("async") else "def"
    if item.get("one_line"):
        lines.append("%s%s %s(%s)%s: return 1" % (indent, kw, iface["name"], sig, arrow))
        return lines
    if item.get("multiline") and sig:
        parts = _split_sig(sig)
        lines.append("%s%s %s(" % (indent, kw, iface["name"]))
        for i, part in enumerate(parts):
            c = "  # about this one" if (item.get("header_comment") and i == 0) else ""
            lines.append("%s    %s,%s" % (inner, part, c))
        lines.append("%s)%s:" % (indent, arrow))
    else:
        lines.append("%s%s %s(%s)%s:" % (indent, kw, iface["name"], sig, arrow))
    if item.get("types_only_doc") and item["style"] != "none" and (iface["params"] or ret):
        doc = ['%s"""' % inner]
        for p_ in iface["params"]:
            doc += ["%s:type %s: ```%s```" % (inner, p_["name"], p_["typ"]), ""]
        if ret:
            doc.append("%s:rtype: ```%s```" % (inner, ret["typ"]))
        elif doc[-1] == "":
            doc.pop()
        doc.append('%s"""' % inner)
        lines.append("\n".join(doc))
    elif item["style"] != "none":
        documented = dict(iface)
        documented["params"] = list(iface["params"]) + list(item.get("kwonly", ()))
        if item["types_in"] == "differ":
            documented["params"] = [dict(p_, typ=_OTHER_TYPE.get(p_.get("typ"), "str")) if p_.get("typ") else p_
                                    for p_ in documented["params"]]
            if ret and ret.get("typ"):
                documented["returns"] = dict(ret, typ=_OTHER_TYPE.get(ret["typ"], "str"))
        lines.append(gen.render_docstring(documented, item["style"], indent=inner,
                                          with_types=item["types_in"] in ("doc", "both", "differ")))
    if item.get("doc_only") and item["style"] != "none" and not item.get("nested"):
        return lines   # a stub: the docstring is the whole body
    for s in item.get("body", ()):
        for ln in s.split("\n"):
            lines.append(inner + ln)
    if item.get("nested"):
        lines += render_func(item["nested"], inner)
    if ret:
        lines.append("%sreturn %s" % (inner, {"int": "0", "float": "0.0", "str": "''", "bool": "False"}[ret["typ"]]))
    else:
        lines.append(inner + ("pass" if item["style"] == "none" and not item.get("body") else "return None"))
    return lines


def _split_sig(sig):
    parts, depth, cur = [], 0, ""
    for ch in sig:
        if ch in "([{":
            depth += 1
        elif ch in ")]}":
            depth -= 1
        if ch == "," and depth == 0:
            parts.append(cur.strip())
            cur = ""
        else:
            cur += ch
    if cur.strip():
        parts.append(cur.strip())
    return parts


def render_class(item):
    lines = ["@%s" % d for d in item.get("decorators", ())]
    lines.append("class %s(%s):" % (item["name"], item["bases"]) if item["bases"] else "class %s:" % item["name"])
    if item["doc"] == "plain":
        lines.append('    """%s"""' % item["summary"])
    elif item["doc"] == "cvar":
        lines.append('    """')
        lines.append("    " + item["summary"])
        if item["attrs"]:
            lines.append("")
        for a in item["attrs"]:
            lines.append("    :cvar %s: %s" % (a["name"], a["doc"]))
        lines.append('    """')
    for a in item["attrs"]:
        lines.append("    %s: %s = %s" % (a["name"], a["typ"], a["default"]))
    for m in item["methods"]:
        lines.append("")
        lines += render_func(m, "    ")
    if not item["attrs"] and not item["methods"] and item["doc"] is None:
        lines.append("    pass")
    return lines


def render_module(spec):
    out = []
    if spec.get("header"):
        out.append(spec["header"])
        out.append("")
    out.append("import functools")
    out.append("from typing import Literal, Optional")
    for it in spec["items"]:
        out.append("")
        out.append("")
        if it["kind"] == "func":
            out += render_func(it)
        elif it["kind"] == "class":
            out += render_class(it)
        else:
            out += it["text"].split("\n")
    text = "\n".join(out)
    return text + ("\n" if spec.get("trailing_newline", True) else "")


# ---------------------------------------------------------------------------------------- oracle
def _erase(tree, valueless_to_none):
    class T(ast.NodeTransformer):
        def _strip_doc(self, node):
            body = node.body
            if body and isinstance(body[0], ast.Expr) and isinstance(body[0].value, ast.Constant) \
                    and isinstance(body[0].value.value, str):
                body = body[1:]
            node.body = body or [ast.Pass()]

        def _func(self, node):
            self.generic_visit(node)
            self._strip_doc(node)
            a = node.args
            for arg in a.posonlyargs + a.args + a.kwonlyargs + [x for x in (a.vararg, a.kwarg) if x is not None]:
                arg.annotation = None
                arg.type_comment = None
            node.returns = None
            node.type_comment = None
            return node

        visit_FunctionDef = _func
        visit_AsyncFunctionDef = _func

        def visit_ClassDef(self, node):
            self.generic_visit(node)
            self._strip_doc(node)
            return node

        def visit_Module(self, node):
            self.generic_visit(node)
            self._strip_doc(node)
            return node

        def visit_AnnAssign(self, node):
            self.generic_visit(node)
            if node.value is None:
                if valueless_to_none:
                    return ast.Assign(targets=[node.target], value=ast.Constant(value=None), type_comment=None)
                return ast.Expr(value=ast.Tuple(elts=[ast.Constant(value="<valueless>"), node.target], ctx=ast.Load()))
            return ast.Assign(targets=[node.target], value=node.value, type_comment=None)

        def visit_Assign(self, node):
            self.generic_visit(node)
            node.type_comment = None
            return node

        def visit_For(self, node):
            self.generic_visit(node)
            node.type_comment = None
            return node

        def visit_With(self, node):
            self.generic_visit(node)
            node.type_comment = None
            return node

    return ast.dump(T().visit(tree), include_attributes=False)


def _comments(text):
    out = []
    try:
        for tok in tokenize.generate_tokens(io.StringIO(text).readline):
            if tok.type == tokenize.COMMENT and not tok.string.replace(" ", "").startswith("#type:"):
                out.append(tok.string)
    except (tokenize.TokenError, IndentationError, SyntaxError):
        return None
    return out


def _protected_lines(text, tree):
    """Lines of `text` that must survive byte-identically: everything that is not part of a definition
    header's logical line, a docstring, or a statement carrying a variable annotation / type comment."""
    lines = text.split("\n")
    exempt = set()
    header_starts = {}
    for node in ast.walk(tree):
        if isinstance(node, (ast.FunctionDef, ast.AsyncFunctionDef, ast.ClassDef)):
            header_starts[node.lineno] = node
            b0 = node.body[0]
            if isinstance(b0, ast.Expr) and isinstance(b0.value, ast.Constant) and isinstance(b0.value.value, str):
                exempt.update(range(b0.lineno, b0.end_lineno + 1))
        elif isinstance(node, ast.Module) and node.body:
            b0 = node.body[0]
            if isinstance(b0, ast.Expr) and isinstance(b0.value, ast.Constant) and isinstance(b0.value.value, str):
                exempt.update(range(b0.lineno, b0.end_lineno + 1))
        elif isinstance(node, ast.AnnAssign) or (isinstance(node, ast.Assign) and node.type_comment):
            exempt.update(range(node.lineno, node.end_lineno + 1))
    # header logical lines via tokenize: from the line of `def`/`class` to the NEWLINE token ending it
    try:
        toks = list(tokenize.generate_tokens(io.StringIO(text).readline))
    except (tokenize.TokenError, IndentationError, SyntaxError):
        toks = []
    i = 0
    while i < len(toks):
        t = toks[i]
        if t.type == tokenize.NAME and t.string in ("def", "class") and t.start[0] in header_starts:
            j = i
            while j < len(toks) and toks[j].type != tokenize.NEWLINE:
                j += 1
            end = toks[j].start[0] if j < len(toks) else t.start[0]
            exempt.update(range(t.start[0], end + 1))
            i = j
        i += 1
    return [(n + 1, ln) for n, ln in enumerate(lines) if (n + 1) not in exempt]


def _is_subsequence(need, have):
    it = iter(have)
    for _, ln in need:
        for h in it:
            if h == ln:
                break
        else:
            return ln
    return None


_COOKIE = re.compile(r"^[ \t\f]*#.*?coding[:=][ \t]*([-\w.]+)")


def _encoding_of_text(text):
    """The encoding a file holding this text declares (PEP 263: a cookie in the first two lines), else UTF-8."""
    for ln in text.split("\n")[:2]:
        m = _COOKIE.match(ln)
        if m:
            return m.group(1)
    return "utf-8"


def _rd(world, rel="m.py"):
    """The file as the interpreter reads it: bytes decoded honouring BOM / coding cookie."""
    import io
    import tokenize
    data = world.read_bytes(rel)
    if data is None:
        return None
    try:
        enc = tokenize.detect_encoding(io.BytesIO(data).readline)[0]
    except SyntaxError:
        enc = "utf-8"
    return data.decode(enc, "surrogateescape")


def _wr(world, text, rel="m.py"):
    world.write_files({rel: text.encode(_encoding_of_text(text), "surrogateescape")})


def check_ok(before, after, info, counterfactual=None):
    """A1-A4 plus, for a file in one of the listed lexical shapes, the causal classification of each violation:
    `shape_is_cause` names the shape iff the same text with the shape undone converts without a violation of that clause."""
    v = _check_ok(before, after, info, counterfactual)
    # the one listed known-bad shape this file carries: a lexical shape, else one-line definitions
    shape = info.get("shape")
    if v and shape and counterfactual is not None:
        plain = unshape(before, shape)
        if plain != before:
            try:
                ast.parse(plain)
                cf_after = counterfactual(plain)
                cf = _check_ok(plain, cf_after, dict(info, shape=None, one_line_names=[]), counterfactual)
                bad = {x["clause"] for x in cf}
            except (SyntaxError, ValueError, TypeError):
                bad = {"A1", "A2", "A3", "A4"}
            for x in v:
                x["sig"] = dict(x["sig"], shape_is_cause=shape if x["clause"] not in bad else None)
    return v


def _check_ok(before, after, info, counterfactual=None):
    """A1-A4 on a command that returned normally without any fault.  `counterfactual(text)` runs the same command
    on another text in a scratch world and returns the resulting text (used to decide, causally, whether a listed
    known-bad shape is what broke the result)."""
    v = []
    tb = ast.parse(before)
    try:
        ta = ast.parse(after)
    except SyntaxError as e:
        return [{"clause": "A1", "detail": "result does not parse: %s" % e,
                 "sig": {"what": "unparsable"}}]
    ea = _erase(ast.parse(after), False)
    eb1 = _erase(ast.parse(before), False)
    eb2 = _erase(ast.parse(before), True)
    if ea != eb1 and ea != eb2:
        v.append({"clause": "A2", "detail": "program changed: " + _first_diff(eb1, ea),
                  "sig": {"what": "ast_changed", "area": _diff_area(eb1, ea)}})
    cb, ca = _comments(before), _comments(after)
    if cb is not None and ca != cb:
        # is the only difference that comments written between a header's parentheses are gone?
        rest = [c for c in cb if "about this one" not in c]
        kept = [c for c in (ca or []) if "about this one" not in c]
        n_b = sum(1 for c in cb if "about this one" in c)
        n_a = sum(1 for c in (ca or []) if "about this one" in c)
        only_header = bool(info.get("header_comment")) and rest == kept and n_a < n_b
        v.append({"clause": "A3", "detail": "comments changed: before=%s after=%s" % (cb[:8], (ca or [])[:8]),
                  "sig": {"what": "comments", "lost_comment_inside_header_parens": only_header}})
    missing = _is_subsequence(_protected_lines(before, tb), after.split("\n"))
    if missing is not None:
        v.append({"clause": "A4", "detail": "line outside headers/docstrings not preserved: %r" % missing,
                  "sig": {"what": "line_changed"}})
    return v


def _first_diff(a, b):
    i = 0
    while i < min(len(a), len(b)) and a[i] == b[i]:
        i += 1
    return "…%s  !=  …%s" % (a[max(0, i - 60):i + 80], b[max(0, i - 60):i + 80])


def _diff_area(a, b):
    i = 0
    while i < min(len(a), len(b)) and a[i] == b[i]:
        i += 1
    ctx = a[max(0, i - 200):i + 40]
    for key in ("defaults=", "kw_defaults=", "vararg=", "kwarg=", "kwonlyargs=", "decorator_list=", "bases=", "body="):
        if key in ctx[-120:]:
            return key.rstrip("=")
    return "other"


# ------------------------------------------------------------------------------------ simulation
_warm = [False]
WARM_SRC = 'def warm(a, b=1):\n    """\n    Warm.\n\n    :param a: x\n    :type a: ```int```\n    """\n    return a\n'


def warm_up():
    """Import everything and run one throw-away doctrans of each flavour so that later step counts do
    not contain first-call lines (DESIGN.md §2.8)."""
    if _warm[0]:
        return
    proc.import_all()
    w = SimWorld(tag="warm")
    try:
        for fmt in FORMATS:
            for ta in (True, False):
                w.write_files({"warm.py": WARM_SRC})
                ops.invoke(w, _op({"format": fmt, "type_annotations": ta, "word_wrap": False}, "warm.py"))
                ops.invoke(w, _op({"format": fmt, "type_annotations": ta, "word_wrap": True}, "warm.py"))
    finally:
        w.destroy()
    _warm[0] = True


def _op(cmd, rel="m.py"):
    if not cmd["word_wrap"]:
        # CLI entry: the mutually exclusive group allows exactly these combinations
        flag = "--type-annotations" if cmd["type_annotations"] else "--no-type-annotations"
        return {"cmd": "cli", "argv": ["doctrans", "--filename", "{ROOT}/" + rel, "--format", cmd["format"], flag]}
    return {"cmd": "sdk", "fn": "cdd.compound.doctrans.doctrans",
            "kwargs": {"filename": "{ROOT}/" + rel, "docstring_format": cmd["format"],
                       "type_annotations": cmd["type_annotations"], "no_word_wrap": None}}


def _features(spec):
    f = {"one_line": False, "header_comment": False, "one_line_names": []}
    def walk(it):
        if it["kind"] == "func":
            if it.get("one_line"):
                f["one_line"] = True
                f["one_line_names"].append(it["iface"]["name"])
            if it.get("header_comment") and it.get("multiline"):
                f["header_comment"] = True
            for k in ("async", "multiline"):
                if it.get(k):
                    f[k] = True
            if it.get("decorators"):
                f["decorated"] = True
            if it.get("vararg") or it.get("kwarg") or it.get("kwonly"):
                f["star"] = True
            if any(p.get("default") is not None for p in it["iface"]["params"]):
                f["defaults"] = True
            if any(p.get("odd_default") for p in it["iface"]["params"]):
                f["colon_in_default"] = True
            if any(p.get("long_default") for p in it["iface"]["params"]):
                f["header_over_100_columns"] = True
            if any("\\\\d+" in (p.get("doc") or "") for p in it["iface"]["params"]):
                f["backslash_in_docstring"] = True
            if it.get("doc_only") and it["style"] != "none" and not it.get("nested"):
                f["docstring_only_body"] = True
            if it.get("types_only_doc") and it["style"] != "none":
                f["types_only_docstring"] = True
            if it.get("method"):
                f["method"] = True
            if it.get("nested"):
                f["nested"] = True
                walk(it["nested"])
        elif it["kind"] == "class":
            for m in it["methods"]:
                walk(m)
    for it in spec["items"]:
        walk(it)
    return f


def _one_item_shape(module, keep):
    """Returns (module', item_shape).  keep=None: clear every per-definition known-bad shape (a lexical shape is in
    force).  keep="auto": keep one kind only — one-line definitions if any, else async docstring-only stubs."""
    import copy
    m = copy.deepcopy(module)
    funcs = []

    def walk(it):
        if it.get("kind") == "func":
            funcs.append(it)
            if it.get("nested"):
                walk(it["nested"])
        elif it.get("kind") == "class":
            for x in it.get("methods", ()):
                walk(x)
    for it in m["items"]:
        walk(it)

    def is_async_stub(f):
        return bool(f.get("async") and f.get("doc_only") and f["style"] != "none" and not f.get("nested"))
    chosen = None
    if keep == "auto":
        if any(f.get("one_line") for f in funcs):
            chosen = "one_line"
        elif any(is_async_stub(f) for f in funcs):
            chosen = "async_doc_only"
    for f in funcs:
        if chosen != "one_line":
            f["one_line"] = False
        if chosen != "async_doc_only" and is_async_stub(f):
            f["doc_only"] = False
        if keep is None:
            f["header_comment"] = False
    return m, chosen


def fault_points(reh, plan, tier_lines):
    """The enumeration of where this command can fail, from its fault-free traced rehearsal."""
    pts = []
    io = reh.io_events()
    for ev in io:
        for en in seams.ERRNOS_FOR.get(ev["kind"], ("EIO",)):
            if ev["kind"] == "close_w":
                n = ev.get("nbytes", 0)
                for keep in sorted({0, n // 2, max(n - 1, 0)}):
                    pts.append({"seam": "io", "at": ev["io"], "kind": "err", "errno": en, "keep": keep})
            else:
                pts.append({"seam": "io", "at": ev["io"], "kind": "err", "errno": en})
    total = reh.steps
    if total <= 0:
        return pts, []
    marks = [0] + [ev.get("step", 0) for ev in io] + [total]
    ks = set()
    for a, b in zip(marks, marks[1:]):
        lo, hi = a + 1, b
        if lo > hi:
            continue
        ks.update((lo, (lo + hi) // 2, hi))
    first_w = next((ev.get("step", 0) for ev in io if ev["kind"] == "open_w"), None)
    after_write = []
    if first_w is not None:
        after_write = list(range(first_w + 1, min(total, first_w + 400) + 1))
        ks.update(after_write)
    for fr in plan.get("line_fracs", ())[:tier_lines]:
        ks.add(1 + int(fr * total))
    # re-visits of a `with` header on normal exit cannot fail by themselves (only __exit__ can, which the
    # close_w seam faults model), so they are not injection points
    wx = set(reh.clock.with_exits or ()) if reh.clock is not None else set()
    ks = sorted(k for k in ks if 1 <= k <= total and k not in wx)
    aw = set(after_write)
    return pts, [(k, k in aw) for k in ks]


def simulate(plan, tier_lines=12, per_line=False):
    warm_up()
    res = SimResult()
    res.plan_digest = digest_of(plan)
    stats = {"commands": 0, "steps": 0, "outcomes": {}, "faults_fired": {}, "fault_sites": [], "probes": {},
             "world_states": [], "evaluations": 0}
    res.stats = stats
    probe = stats["probes"]

    def bump(d, k, n=1):
        d[k] = d.get(k, 0) + n

    # exactly one listed known-bad shape per file, so that every counterfactual isolates one cause: the drawn lexical
    # shape wins, else one-line definitions, else an async def whose body is only a docstring
    shape = plan.get("shape")
    module, item_shape = _one_item_shape(plan["module"], keep=None if shape else "auto")
    plan = dict(plan, module=module)
    src = apply_shape(render_module(plan["module"]), shape)
    feats = _features(plan["module"])
    feats["shape"] = shape or item_shape
    if shape:
        bump(probe, "lexical_shape_" + shape)
    world = SimWorld(tag="c07")
    _wr(world, src)
    history = []
    rewrote = False
    try:
        ast.parse(src)
    except SyntaxError as e:  # generator defect, never a finding
        world.destroy()
        raise AssertionError("generator produced invalid Python: %s\n%s" % (e, src))
    try:
        for ci, cmd in enumerate(plan["cmds"]):
            op = _op(cmd)
            before = _rd(world)
            try:
                ast.parse(before)
            except SyntaxError:
                break  # an earlier (reported) A1 violation; nothing further is in the property's domain
            faulted = ci == min(plan.get("fault_cmd", 0), len(plan["cmds"]) - 1) and not hyp.SHRINKING[0] \
                or plan.get("force_fault") is not None and ci == plan.get("force_fault_cmd", 0)
            cp = world.checkpoint() if faulted else None
            o = ops.invoke(world, op, trace=True, budget=STEP_BUDGET, with_exits=True)
            stats["commands"] += 1
            stats["evaluations"] += 1
            stats["steps"] += o.steps
            bump(stats["outcomes"], "doctrans:" + o.kind)
            after = _rd(world)
            viols = []
            if o.kind in ("budget", "timeout"):
                bump(stats, "nonterminating_commands")
                history.append({"cmd": _cfg(cmd), "outcome": o.brief(), "sha": digest_of(after), "key": o.key()})
                _wr(world, before)
                break
            if o.ok:
                def cf(text, op=op):
                    w2 = SimWorld(tag="c07cf")
                    try:
                        _wr(w2, text)
                        ops.invoke(w2, op, budget=STEP_BUDGET)
                        return _rd(w2)
                    finally:
                        w2.destroy()
                viols = check_ok(before, after, feats, counterfactual=cf)
                if after != before:
                    rewrote = True
                    bump(probe, "file_rewritten")
                    _probe_changes(before, after, feats, probe, bump)
                else:
                    bump(probe, "file_unchanged")
                if ci > 0:
                    bump(probe, "second_pass")
            elif after != before:
                viols.append({"clause": "A5", "detail": "doctrans raised %s (%s) but the file changed" % (
                    o.exc_type, (o.exc_msg or "")[:120]), "sig": {"what": "natural_error", "site": o.exc_site}})
            for k in ("async", "nested", "decorated", "method", "multiline", "colon_in_default", "backslash_in_docstring",
                      "docstring_only_body", "types_only_docstring", "header_over_100_columns"):
                if feats.get(k):
                    bump(probe, {"async": "async_def", "nested": "nested_def", "decorated": "decorated_def",
                                 "method": "method", "multiline": "multiline_header"}.get(k, k))
            for x in viols:
                x["detail"] = "cmd %d %s: %s" % (ci, _cfg(cmd), x["detail"])
            res.violations += viols
            history.append({"cmd": _cfg(cmd), "outcome": o.brief(), "sha": digest_of(after), "key": o.key()})
            stats["world_states"].append(digest_of(after))
            if faulted and cp is not None:
                forced = plan.get("force_fault")
                vs = _enumerate_faults(world, plan, ci, cmd, op, cp, before, o, stats, bump, tier_lines, per_line,
                                       only=forced)
                res.violations += vs
                world.restore(cp)
                # continue the history from the fault-free post-state
                _wr(world, after)
    finally:
        world.destroy()
    res.trace = {"kind": "c07-plan", "plan": plan, "files": {"m.py": src}, "history": history}
    res.digest = digest_of([[h["cmd"], h["key"], h["sha"]] for h in history])
    res.nontrivial = (rewrote or bool(stats["faults_fired"])) and any(probe.values())
    res.sample = {"source": src[:1500], "history": history}
    return res


def _cfg(cmd):
    return "doctrans --format %s %s%s" % (cmd["format"], "--type-annotations" if cmd["type_annotations"] else
                                          "--no-type-annotations", " (word-wrap on, SDK entry)" if cmd["word_wrap"] else "")


def _probe_changes(before, after, feats, probe, bump):
    try:
        tb, ta = ast.parse(before), ast.parse(after)
    except SyntaxError:
        return
    fb = {n.name: n for n in ast.walk(tb) if isinstance(n, (ast.FunctionDef, ast.AsyncFunctionDef))}
    fa = {n.name: n for n in ast.walk(ta) if isinstance(n, (ast.FunctionDef, ast.AsyncFunctionDef))}
    for name, nb in fb.items():
        na = fa.get(name)
        if na is None:
            continue
        if ast.dump(nb.args) != ast.dump(na.args) or ast.dump(nb.returns) if nb.returns else None != (
                ast.dump(na.returns) if na.returns else None):
            bump(probe, "header_rewritten")
            if nb.args.defaults or nb.args.kw_defaults:
                bump(probe, "header_with_defaults_rewritten")
            if nb.args.vararg or nb.args.kwarg or nb.args.kwonlyargs:
                bump(probe, "header_with_star_rewritten")
        db, da = ast.get_docstring(nb, clean=False), ast.get_docstring(na, clean=False)
        if db is None and da is not None:
            bump(probe, "docstring_added")
        elif db is not None and da is not None and db != da:
            bump(probe, "docstring_replaced")
        elif db is not None and da is None:
            bump(probe, "docstring_removed")


def _enumerate_faults(world, plan, ci, cmd, op, cp, before, reh, stats, bump, tier_lines, per_line, only=None):
    viols = []
    if only is not None:
        targets = [only]
    else:
        io_pts, line_pts = fault_points(reh, plan, tier_lines)
        targets = list(io_pts)
        exc = plan.get("exc", "RuntimeError")
        for k, after_w in line_pts:
            targets.append({"seam": "line", "k": k, "exc": exc, "after_write_open": after_w})
        if per_line and reh.steps:
            # one injection at the first hit of every distinct executed source line (guards the interval argument)
            world.restore(cp)
            tr = ops.invoke(world, op, trace=True, track=True)
            targets += _first_hits(world, op, cp, tr, exc)
    for f in targets:
        world.restore(cp)
        flt = {k: v for k, v in f.items() if k != "after_write_open"}
        o = ops.invoke(world, op, faults=[flt], wall_s=20)
        stats["evaluations"] += 1
        bump(stats, "enumerated_faults")
        after = _rd(world)
        for fr in o.fired:
            if fr["seam"] == "io":
                bump(stats["faults_fired"], "%s@%s" % (fr.get("errno", "err"), fr["event"]))
                stats["fault_sites"].append("%s:%s" % (fr["event"], fr.get("site")))
                bump(stats["probes"], "io_fault_fired")
            else:
                bump(stats["faults_fired"], "exc_at_line:" + fr["exc"])
                stats["fault_sites"].append("%s:%d" % (fr["file"], fr["line"]))
                bump(stats["probes"], "line_fault_fired")
                if f.get("after_write_open"):
                    bump(stats["probes"], "fault_after_write_open")
        bump(stats["outcomes"], "faulted:" + o.kind)
        if o.kind == "raised" and after != before:
            where = o.fired[0] if o.fired else {}
            site = where.get("site") or ("%s:%s" % (where.get("file"), where.get("line")))
            p2 = dict(plan)
            p2["cmds"] = plan["cmds"][:ci + 1]
            p2["force_fault"] = flt
            p2["force_fault_cmd"] = ci
            viols.append({"clause": "A5", "final": True,
                          "detail": "cmd %d %s failed with %s after fault %s, but the file changed: %d -> %d bytes%s" % (
                              ci, _cfg(cmd), o.exc_type, _short(flt), len(before), len(after or ""),
                              " (now empty)" if not after else ""),
                          "sig": {"what": "fault", "seam": flt["seam"],
                                  "event": where.get("event", "line"), "site": site},
                          "trace": {"kind": "c07-plan", "plan": p2,
                                    "files": {"m.py": apply_shape(render_module(plan["module"]), plan.get("shape"))}}})
    return viols


def _first_hits(world, op, cp, tr, exc):
    """k of the first execution of every distinct source line: needs a second traced run recording k per site."""
    from cddsim.clock import StepClock  # noqa: F401
    # replay with a clock that remembers first k per site
    firsts = {}
    world.restore(cp)

    class C(StepClock):
        pass
    import sys as _sys
    from cddsim import CDD_DIR, CDD_TESTS_DIR
    steps = [0]

    def g(frame, event, arg):
        fn = frame.f_code.co_filename
        if fn.startswith(CDD_DIR) and not fn.startswith(CDD_TESTS_DIR):
            return l
        return None

    def l(frame, event, arg):
        if event == "line":
            steps[0] += 1
            key = (frame.f_code.co_filename, frame.f_lineno)
            if key not in firsts:
                firsts[key] = steps[0]
        return l

    def call():
        _sys.settrace(g)
        try:
            if op["cmd"] == "cli":
                import cdd.__main__ as m
                return m.main(ops.subst(op["argv"], world))
            fn = ops._resolve(op["fn"])
            return fn(**ops.subst(op.get("kwargs", {}), world))
        finally:
            _sys.settrace(None)
    ops.invoke(world, op, call=call)
    return [{"seam": "line", "k": k, "exc": exc} for k in sorted(firsts.values())]


def _short(f):
    if f["seam"] == "io":
        return "io#%d %s%s" % (f["at"], f.get("errno"), " keep=%s" % f["keep"] if "keep" in f else "")
    return "line#%d %s" % (f["k"], f.get("exc"))


# ------------------------------------------------------------------------------ runner interface
def plan(tier, seed, scale=1.0):
    per = int({"quick": 20, "thorough": 110}[tier] * scale)
    return [{"seed": seed * 1000 + w, "n": per, "tier": tier} for w in range(16)]


def work(task):
    import warnings
    warnings.simplefilter("ignore")   # converted docstrings may contain `\d`: a SyntaxWarning of ast.parse, not a finding
    known = load_known(ID)
    quick = task["tier"] == "quick"
    strat = plans(n_seeded_lines=6 if quick else 24)
    counter = [0]

    def sim(p):
        counter[0] += 1
        per_line = (not quick) and counter[0] % 40 == 0 and not hyp.SHRINKING[0]
        return simulate(p, tier_lines=6 if quick else 24, per_line=per_line)
    return explore(strat, sim, task["seed"], task["n"], known, batch=10 if quick else 50,
                   max_shrink_runs=500, max_shrink_s=60.0)


def replay(trace):
    return simulate(trace["plan"], tier_lines=40).violations
