"""C19 — gen writes a valid module that exports exactly what it generated, and never overwrites.

Project machine (DESIGN.md §3 C19): an input mapping file (1..5 entries of one kind, or a JSON-schema file)
and an output path; histories of gen on an absent output, gen again on the now-present output, gen after a
faulty gen that left a torso, gen --phase 1|2 on SQLAlchemy output, user deletion of the output, restart.
"""
import ast
import json
import os

from hypothesis import strategies as st

from cddsim import gen, hyp, ops, proc, seams
from cddsim.hyp import SimResult, digest_of, explore
from cddsim.runner import load_known
from cddsim.world import SimWorld
from checks import c12

ID = "C19"
LEVEL = "fault_enumeration"
RULE = ("Hypothesis-drawn input modules with 1..5 classes / functions / argparse functions (own renderer) or one "
        "JSON-schema file x parse kind (explicit or infer) x the eight emit kinds x name templates x "
        "--emit-and-infer-imports x --prepend / --imports-from-file x --no-word-wrap; histories of 1..4 steps: gen on an "
        "absent output, gen on the present output (must refuse), gen after a faulted gen (I/O error, torn close or crash at a "
        "rehearsed seam call) that left a torso, user deletes the output, gen --phase 1|2 on SQLAlchemy output, restart. "
        "On a fault-free gen that returns: I1 output compiles, I2 one symbol per entry named by the template, I3 __all__ is "
        "exactly those names, I4 each symbol parsed back by cdd's matching parser has the source entry's interface (class / "
        "function / argparse output), I5 with import inference every typing/SQLAlchemy name used is bound. Always: I6 gen "
        "on an existing output at phase 0 raises and leaves bytes+mtime untouched with no write-mode open; I7 nothing but "
        "the output path is created or written; on flagged plans every seam call of a gen on an absent output is faulted once "
        "per kind and I7 plus 'gen again on whatever was left must refuse' (I6) are judged after each. A gen that raises "
        "without writing is a refusal, not a violation. "
        "Non-trivial = a gen wrote an output; distinct = distinct outcome digest.")
ASSUMPTIONS = [
    "interfaces from the common representable domain; Optional parameters always carry a default",
    "I4 is asserted for class, function and argparse output; for SQLAlchemy / JSON-schema / pydantic output only "
    "I1-I3, I5 are (their read-back parsers add keys such as primary keys that are not part of the source interface)",
    "the lossy default cells of argparse and created-function output are the same listed findings as in C12",
    "faults are one-shot; process-crash semantics",
]
REAL = ["cdd (working tree) via cdd.__main__.main (the non-clobbering guard lives there)", "cdd parsers as read-back "
        "reader for I4", "CPython compile()", "tmpfs file system"]
STUBBED = ["durability of write-mode files (SimFile)", "OS errors", "process crash (SimCrash)", "the user (delete output)"]
EMITS = ("class", "function", "argparse", "sqlalchemy", "sqlalchemy_table", "sqlalchemy_hybrid", "json_schema", "pydantic")
KINDS = ("class", "function", "argparse", "json")
# a leading underscore in the template (or in an entry's own name, below) gives non-public looking names: the
# statement still requires __all__ to list exactly the templated names
TPLS = ("{name}Gen", "Auto{name}", "{name}_v2", "{name}", "_{name}")
PREPENDS = ("PREPENDED = True\\n", "import os\\n", "from os import path\\n", "import json\\nPREPENDED = True\\n",
            # preludes that import OTHER names from the very modules the inferred imports come from
            "from typing import List\\n", "from sqlalchemy import MetaData\\n",
            "from typing import Dict\\nfrom sqlalchemy import MetaData\\nPREPENDED = True\\n")
IMPORT_FILES = (("imports_src.py", "import os\nfrom collections import OrderedDict\n\nX = 1\n"),
                ("imports_future.py", "from __future__ import annotations\n\nX = 1\n"),
                ("imports_one.py", "import json\n\nX = 1\n"))
TYPING_NAMES = ("Optional", "Literal", "List", "Union", "Any", "Dict", "Tuple")
SA_NAMES = ("Column", "Integer", "String", "Boolean", "Float", "Table", "Enum", "JSON", "LargeBinary", "BigInteger",
            "Identity", "ForeignKey", "Text", "PickleType")


def probes():
    return ["gen_wrote_output", "gen_refused_without_writing", "gen_refused_existing_output", "existing_output_is_torso",
            "import_inference_on", "prepend", "imports_from_file", "multi_entry_input", "json_input", "directory_input", "phase_1_or_2",
            "fault_fired", "crash_fired", "user_deleted_output", "i4_checked", "existing_output_spelled_tilde",
            "existing_output_spelled_relative", "mixed_kind_input", "user_created_empty_output",
            "phase_with_phaseless_emit_on_existing"] + ["wrote_emit_" + e for e in
                                                                                  ("class", "argparse", "sqlalchemy",
                                                                                   "sqlalchemy_table", "json_schema")]


# ------------------------------------------------------------------------------------ generators
@st.composite
def entries(draw):
    kind = draw(st.sampled_from(("class", "class", "function", "argparse", "json", "mixed")))
    n = 1 if kind == "json" else draw(st.integers(2, 4)) if kind == "mixed" else draw(st.integers(1, 5))
    pool = {"class": gen.CLASS_NAMES + ("_Internal",), "mixed": gen.CLASS_NAMES, "function": gen.FUNC_NAMES + ("_helper",),
            "json": ("alpha", "config", "user_profile"),
            "argparse": ("set_cli_args", "set_cli_args_b", "set_cli_args_c", "set_cli_args_d", "set_cli_args_e")}[kind]
    names = draw(st.lists(st.sampled_from(pool), min_size=n, max_size=n, unique=True))
    out = []
    for nm in names:
        sp = draw(gen.interface_spec(name=nm, min_params=1, max_params=4, types=c12.TYPES, returns=False,
                                     optional_needs_default=True))
        if kind == "argparse":
            sp["choices_form"] = draw(st.sampled_from(("tuple", "tuple", "list", "set")))
        if kind == "mixed":
            # a module mixing plain classes and SQLAlchemy declarative classes (read with --parse infer)
            sp["entry_kind"] = draw(st.sampled_from(("class", "sqlalchemy")))
            if sp["entry_kind"] == "sqlalchemy":
                for p in sp["params"]:
                    p["typ"] = {"int": "int", "float": "float", "str": "str", "bool": "bool"}.get(p["typ"], "str")
                    if p["typ"] == "str" and p.get("default") is not None and not p["default"].startswith("'"):
                        p["default"] = "'a'"
        out.append(sp)
    ent = {"kind": kind, "specs": out}
    if kind in ("class", "function", "argparse") and n >= 2 and draw(st.integers(0, 4)) == 4:
        # the input mapping is a DIRECTORY holding one module per entry (gen reads every file in it)
        ent["layout"] = "dir"
    return ent


@st.composite
def gen_step(draw, kind):
    s = {"op": "gen", "emit": draw(st.sampled_from(("class", "argparse", "sqlalchemy", "sqlalchemy_table", "class", "argparse",
                                                    "sqlalchemy_hybrid", "json_schema", "function", "pydantic"))),
         "parse": draw(st.sampled_from(("infer", "explicit"))), "tpl": draw(st.sampled_from(TPLS)),
         "infer_imports": draw(st.booleans()), "prepend": draw(st.integers(0, 3)) == 3,
         # what is prepended / which file the imports are taken from (index into PREPENDS / IMPORT_FILES)
         "prepend_i": draw(st.integers(0, len(PREPENDS) - 1)), "imports_i": draw(st.integers(0, len(IMPORT_FILES) - 1)),
         "imports_from_file": draw(st.integers(0, 3)) == 3, "no_word_wrap": draw(st.booleans()),
         "phase": 0, "fault": None,
         # how the user spells the output path: absolute, relative to the cwd, or with a leading ~ (HOME = project dir)
         "spelling": draw(st.sampled_from(("abs", "abs", "abs", "rel", "tilde", "dotslash")))}
    if draw(st.integers(0, 9)) >= 6:
        s["fault"] = {"frac": draw(st.floats(0, 0.999)), "kind": draw(st.sampled_from(("err", "err", "crash"))),
                      "target": draw(st.sampled_from(("mut", "mut", "any"))), "errno_i": draw(st.integers(0, 2)),
                      "keep": draw(st.sampled_from((0.0, 0.5, 0.99)))}
    return s


@st.composite
def plans(draw):
    ent = draw(entries())
    steps = [draw(gen_step(ent["kind"]))]
    for _ in range(draw(st.integers(0, 3))):
        k = draw(st.sampled_from(("gen", "gen", "delete", "phase", "restart", "touch", "phase_any")))
        if k == "gen":
            steps.append(draw(gen_step(ent["kind"])))
        elif k == "phase":
            steps.append({"op": "gen", "emit": draw(st.sampled_from(("sqlalchemy", "sqlalchemy_table", "sqlalchemy_hybrid"))),
                          "parse": "infer", "tpl": "{name}Gen", "infer_imports": False, "prepend": False,
                          "imports_from_file": False, "no_word_wrap": False, "phase": draw(st.sampled_from((1, 2, 3))),
                          "fault": None})
        elif k == "phase_any":
            # --phase N with an emit kind that has no phases: must not switch the non-clobbering guard off
            st_ = draw(gen_step(ent["kind"]))
            st_["phase"] = draw(st.sampled_from((1, 2, 3)))
            st_["fault"] = None
            steps.append(st_)
        else:
            steps.append({"op": k})
    return {"entries": ent, "steps": steps, "black": True, "enum": draw(st.integers(0, 4)) == 4}


# -------------------------------------------------------------------------------------- renderer
def render_input(ent):
    """{rel: text} of the input mapping (and the imports file)."""
    kind = ent["kind"]
    if kind == "json":
        spec = ent["specs"][0]
        props = {}
        required = []
        for p in spec["params"]:
            d = {"description": p["doc"], "type": {"int": "integer", "float": "number", "str": "string",
                                                    "bool": "boolean"}.get(p["typ"].replace("Optional[", "").rstrip("]"),
                                                                           "string")}
            if p.get("default") not in (None, "None"):
                d["default"] = ast.literal_eval(p["default"])
            else:
                required.append(p["name"])
            props[p["name"]] = d
        doc = {"$id": "https://example.com/%s.schema.json" % spec["name"], "$schema": "https://json-schema.org/draft/2020-12/schema",
               "description": spec["doc"], "type": "object", "properties": props, "required": required}
        return {"%s.json" % spec["name"]: json.dumps(doc, indent=2)}, "%s.json" % spec["name"]
    parts = ["from typing import Literal, Optional", "", ""]
    if kind == "mixed":
        # no module-level assignment: `--parse infer` on a file treats every top-level Assign as a table
        parts = ["from typing import Literal, Optional", "from sqlalchemy import Boolean, Column, Float, Integer, String",
                 "from models_base import Base", "", ""]
    if ent.get("layout") == "dir":
        one = {"class": gen.render_class, "argparse": gen.render_argparse,
               "function": lambda sp: gen.render_function(sp, style="rest", annotate=False, body=["print(%r)" % sp["name"]])}[kind]
        return {"inputs/%s.py" % spec["name"].lower(): "\n".join(parts + [one(spec), ""]) for spec in ent["specs"]}, "inputs"
    for spec in ent["specs"]:
        if kind == "mixed" and spec.get("entry_kind") == "sqlalchemy":
            parts.append(render_sqlalchemy(spec))
        elif kind in ("class", "mixed"):
            parts.append(gen.render_class(spec))
        elif kind == "function":
            parts.append(gen.render_function(spec, style="rest", annotate=False, body=["print(%r)" % spec["name"]]))
        else:
            parts.append(gen.render_argparse(spec))
        parts.append("")
    return {"m.py": "\n".join(parts)}, "m.py"


def render_sqlalchemy(spec):
    """A declarative SQLAlchemy class (own renderer)."""
    col = {"int": "Integer", "float": "Float", "str": "String", "bool": "Boolean"}
    lines = ["class %s(Base):" % spec["name"], '    """', "    " + spec["doc"], ""]
    for p in spec["params"]:
        lines.append("    :cvar %s: %s" % (p["name"], p["doc"]))
    lines += ['    """', "", '    __tablename__ = "%s"' % spec["name"].lower(), ""]
    for i, p in enumerate(spec["params"]):
        extra = ", primary_key=True" if i == 0 else ""
        if p.get("default") is not None and i:
            extra += ", default=%s" % p["default"]
        elif i:
            extra += ", nullable=False"
        lines.append("    %s = Column(%s, doc=%r%s)" % (p["name"], col[p["typ"]], p["doc"], extra))
    return "\n".join(lines) + "\n"


def argv_of(stp, ent, in_rel):
    parse = stp["parse"]
    if parse == "explicit":
        parse = {"class": "class", "function": "function", "argparse": "argparse", "json": "json_schema",
                 "mixed": "infer"}[ent["kind"]]
    out = {"abs": "{ROOT}/out.py", "rel": "out.py", "tilde": "~/out.py", "dotslash": "./sub/../out.py"}[stp.get("spelling", "abs")]
    argv = ["gen", "--name-tpl", stp["tpl"], "--input-mapping", "{ROOT}/" + in_rel, "--parse", parse, "--emit", stp["emit"],
            "-o", out]
    if stp.get("infer_imports"):
        argv.append("--emit-and-infer-imports")
    if stp.get("prepend"):
        argv += ["--prepend", PREPENDS[stp.get("prepend_i", 0) % len(PREPENDS)]]
    if stp.get("imports_from_file"):
        argv += ["--imports-from-file", "{ROOT}/" + IMPORT_FILES[stp.get("imports_i", 0) % len(IMPORT_FILES)][0]]
    if stp.get("no_word_wrap"):
        argv.append("--no-word-wrap")
    if stp.get("phase"):
        argv += ["--phase", str(stp["phase"])]
    return argv


# ---------------------------------------------------------------------------------------- oracle
def expected_names(ent, tpl):
    def ident(s):
        # the symbol must be a valid identifier: characters outside [A-Za-z0-9_] cannot be part of it
        out = "".join(ch for ch in s if ch.isalnum() or ch == "_")
        return out or "_"
    names = []
    for spec in ent["specs"]:
        base = spec["name"] + (".json" if ent["kind"] == "json" else "")
        names.append(ident(tpl.format(name=base)))
    return names


def check_output(ent, stp, text, in_text):
    """I1-I5 on the module a fault-free gen wrote (Python output)."""
    v = []
    emit = stp["emit"]
    try:
        compile(text, "out.py", "exec")
        mod = ast.parse(text)
    except SyntaxError as e:
        return [{"clause": "I1", "detail": "output does not compile: %s" % e,
                 "sig": {"what": "does_not_compile", "emit": emit, "kind": ent["kind"]}}]
    want = expected_names(ent, stp["tpl"])
    defined, assigned = [], []
    all_names = None
    for node in mod.body:
        if isinstance(node, (ast.FunctionDef, ast.ClassDef, ast.AsyncFunctionDef)):
            defined.append(node.name)
        elif isinstance(node, ast.Assign):
            for t in node.targets:
                if isinstance(t, ast.Name):
                    if t.id == "__all__":
                        if isinstance(node.value, (ast.List, ast.Tuple)):
                            all_names = [e.value for e in node.value.elts if isinstance(e, ast.Constant)]
                    else:
                        assigned.append(t.id)
        elif isinstance(node, ast.AnnAssign) and isinstance(node.target, ast.Name):
            if node.target.id == "__all__":
                if isinstance(node.value, (ast.List, ast.Tuple)):
                    all_names = [e.value for e in node.value.elts if isinstance(e, ast.Constant)]
            else:
                assigned.append(node.target.id)
    symbols = defined + [a for a in assigned if a not in ("PREPENDED", "Base", "metadata")]
    missing = [n for n in want if n not in symbols]
    if missing:
        v.append({"clause": "I2", "detail": "expected symbols %s, module defines %s" % (want, symbols),
                  "sig": {"what": "symbol_missing", "emit": emit, "kind": ent["kind"],
                          "defined_under_source_name": all(s["name"] in symbols for s in ent["specs"])}})
    if all_names is None or sorted(all_names) != sorted(want):
        v.append({"clause": "I3", "detail": "__all__ is %s, expected exactly %s" % (all_names, want),
                  "sig": {"what": "all_mismatch", "emit": emit, "kind": ent["kind"],
                          "names_not_identifiers": bool(all_names) and any(not str(n).isidentifier() for n in all_names)}})
    # I5 import inference
    if stp.get("infer_imports"):
        bound = set(symbols) | set(assigned)
        for node in ast.walk(mod):
            if isinstance(node, ast.Import):
                bound.update((a.asname or a.name).split(".")[0] for a in node.names)
            elif isinstance(node, ast.ImportFrom):
                bound.update(a.asname or a.name for a in node.names)
        used = {n.id for n in ast.walk(mod) if isinstance(n, ast.Name) and isinstance(n.ctx, ast.Load)}
        unbound = sorted(n for n in used if n in TYPING_NAMES + SA_NAMES and n not in bound)
        if unbound:
            v.append({"clause": "I5", "detail": "names used but not imported with --emit-and-infer-imports: %s" % unbound,
                      "sig": {"what": "unbound_name", "emit": emit, "names": unbound}})
    # I4 read back
    if emit in ("class", "function", "argparse") and not missing and ent["kind"] != "json":
        pk = {"class": "class", "function": "function", "argparse": "argparse_function", "mixed": "class"}
        for spec, name in zip(ent["specs"], want):
            try:
                if spec.get("entry_kind") == "sqlalchemy":
                    src_ir = _sa_parse(in_text, spec["name"])
                else:
                    src_ir = c12.cdd_parse(in_text, pk[ent["kind"]], spec["name"])
                out_ir = c12.cdd_parse(text, pk[emit], name)
            except BaseException as e:
                v.append({"clause": "I4", "detail": "symbol %s cannot be parsed back: %s: %s" % (name, type(e).__name__, e),
                          "sig": {"what": "readback_raises", "emit": emit, "kind": ent["kind"]}})
                continue
            if src_ir is None or out_ir is None:
                continue
            a = c12.iface_of(src_ir)
            if spec.get("entry_kind") == "sqlalchemy":
                # a SQLAlchemy source entry: names, order and types must survive (defaults/nullability are encoded
                # differently by the SQLAlchemy reader, so they are not compared)
                b = c12.iface_of(out_ir)
                got = [(x[0], (x[1] or "").replace("Optional[", "").rstrip("]")) for x in b if x[0] != "__tablename__"]
                exp = [(x[0], (x[1] or "").replace("Optional[", "").rstrip("]")) for x in a if x[0] != "__tablename__"]
                if got != exp:
                    v.append({"clause": "I4", "detail": "generated %s differs from SQLAlchemy source entry %s: (name, type) %s vs "
                                                        "%s" % (name, spec["name"], got, exp),
                              "sig": {"what": "interface_differs", "emit": emit, "kind": "sqlalchemy_entry", "lossy": None}})
                continue
            # the source entry is verbatim what the harness rendered: what cdd reads out of it must be that interface
            # (I4 compares two reads by cdd's parsers; a source read wrongly would make a wrong symbol 'equal')
            for fld, pname, wr, rd in c12.read_vs_spec(pk[ent["kind"]], spec, a):
                v.append({"clause": "I4", "detail": "source entry %s: %s%s was written as %r and is read as %r" % (
                    spec["name"], fld, " of " + pname if pname else "", wr, rd),
                    "sig": {"what": "source_misread", "kind": ent["kind"], "field": fld}})
            if not c12.in_domain(a):
                continue
            d, lossy = c12.compare_iface(a, c12.iface_of(out_ir), pk[emit])
            if d:
                v.append({"clause": "I4", "detail": "generated %s differs from source entry %s: %s" % (
                    name, spec["name"], "; ".join(d[:3])),
                    "sig": {"what": "interface_differs", "emit": emit, "kind": ent["kind"], "lossy": lossy}})
    return v


def _sa_parse(text, name):
    import cdd.sqlalchemy.parse
    from cdd.shared.source_transformer import ast_parse
    mod = ast_parse(text, filename="<input>")
    node = next(n for n in mod.body if isinstance(n, ast.ClassDef) and n.name == name)
    return cdd.sqlalchemy.parse.sqlalchemy(node)


# ------------------------------------------------------------------------------------ simulation
_warm = [False]


def warm_up():
    if not _warm[0]:
        proc.import_all()
        _warm[0] = True


def simulate(plan):
    warm_up()
    res = SimResult()
    res.plan_digest = digest_of(plan)
    stats = {"commands": 0, "outcomes": {}, "faults_fired": {}, "fault_sites": [], "probes": {}, "world_states": [],
             "evaluations": 0}
    res.stats = stats
    probe = stats["probes"]

    def bump(d, k, n=1):
        d[k] = d.get(k, 0) + n

    ent = plan["entries"]
    files, in_rel = render_input(ent)
    for fn_, text_ in IMPORT_FILES:
        files[fn_] = text_
    files["README.txt"] = "unrelated\n"
    world = SimWorld(tag="c19")
    files["sub"] = None
    world.write_files(files)
    old_home = os.environ.get("HOME")
    os.environ["HOME"] = world.root
    in_text = files[in_rel] if in_rel in files else "\n".join(t for r, t in sorted(files.items())
                                                             if r.startswith(in_rel + "/"))
    if ent.get("layout") == "dir":
        bump(probe, "directory_input")
    if len(ent["specs"]) > 1:
        bump(probe, "multi_entry_input")
    if ent["kind"] == "json":
        bump(probe, "json_input")
    if ent["kind"] == "mixed":
        bump(probe, "mixed_kind_input")
    history = []
    concrete = dict(plan, steps=[])
    wrote = False
    torso = False
    try:
        for si, stp in enumerate(plan["steps"]):
            stp = dict(stp)
            if stp["op"] == "restart":
                proc.purge(("cdd",))
                _warm[0] = False
                warm_up()
                concrete["steps"].append(stp)
                history.append({"op": "restart"})
                continue
            if stp["op"] == "touch":
                # the user (or an editor) left an EMPTY file at the output path
                if not world.exists("out.py"):
                    world.write_files({"out.py": ""})
                    bump(probe, "user_created_empty_output")
                concrete["steps"].append(stp)
                history.append({"op": "touch"})
                continue
            if stp["op"] == "delete":
                if world.exists("out.py"):
                    world.remove("out.py")
                    bump(probe, "user_deleted_output")
                    torso = False
                concrete["steps"].append(stp)
                history.append({"op": "delete"})
                continue
            op = {"cmd": "cli", "argv": argv_of(stp, ent, in_rel)}
            existed = world.exists("out.py")
            cp = world.checkpoint()
            fault = None
            if stp.get("fault") and (not hyp.SHRINKING[0] or "at" in stp["fault"]) and not existed:
                reh = ops.invoke(world, op)
                world.restore(cp)
                fault = c12._resolve_fault(stp["fault"], reh.io_events())
            if plan.get("enum") and not existed and not stp.get("phase") and not hyp.SHRINKING[0] \
                    and si == len(plan["steps"]) - 1:
                reh = ops.invoke(world, op)
                world.restore(cp)
                res.violations += _enumerate(world, plan, stp, op, cp, reh.io_events(), stats, probe, bump, si)
                world.restore(cp)
            before = world.snapshot(with_mtime=True)
            o = ops.invoke(world, op, faults=[fault] if fault else None)
            after = world.snapshot(with_mtime=True)
            stats["commands"] += 1
            stats["evaluations"] += 1
            bump(stats["outcomes"], "gen%s:%s" % ("_phase" if stp.get("phase") else "", o.kind))
            for f in o.fired:
                bump(stats["faults_fired"], "%s@%s" % (f["kind"] if f["kind"] == "crash" else f.get("errno", "err"), f["event"]))
                stats["fault_sites"].append("%s:%s" % (f["event"], f.get("site")))
                bump(probe, "fault_fired")
                if f["kind"] == "crash":
                    bump(probe, "crash_fired")
            if stp.get("infer_imports"):
                bump(probe, "import_inference_on")
            if stp.get("prepend"):
                bump(probe, "prepend")
            if stp.get("imports_from_file"):
                bump(probe, "imports_from_file")
            if stp.get("phase"):
                bump(probe, "phase_1_or_2")
            viols = []
            created, modified, deleted = SimWorld.diff(before, after)
            # I7 — always
            other = [x for x in created + modified + deleted if x not in ("out.py", "~/out.py")]
            if other:
                viols.append({"clause": "I7", "detail": "paths other than the output changed: %s" % other[:5],
                              "sig": {"what": "other_path_changed"}})
            for e in o.events:
                # the named output, as the OS resolves the spelling the user gave (a literal "~" directory included)
                if e["kind"] in ("open_w", "open_raw_w") and (not e.get("inside") or e["path"] not in ("out.py", "~/out.py")):
                    viols.append({"clause": "I7", "detail": "write-mode open of %r at %s" % (e["path"], e.get("site")),
                                  "sig": {"what": "other_path_opened_for_writing", "site": e.get("site")}})
                    break
            # I6 — always: existing output at phase 0 must be refused and untouched
            sa_emit = stp["emit"] in ("sqlalchemy", "sqlalchemy_table", "sqlalchemy_hybrid")
            if existed and (not stp.get("phase") or not sa_emit):
                bump(probe, "gen_refused_existing_output" if not o.ok else "gen_on_existing_returned")
                if stp.get("phase"):
                    bump(probe, "phase_with_phaseless_emit_on_existing")
                if stp.get("spelling") == "tilde":
                    bump(probe, "existing_output_spelled_tilde")
                elif stp.get("spelling") in ("rel", "dotslash"):
                    bump(probe, "existing_output_spelled_relative")
                if torso:
                    bump(probe, "existing_output_is_torso")
                wopen = [e for e in o.events if e["kind"] in ("open_w", "open_raw_w") and e.get("path") == "out.py"]
                if o.ok or "out.py" in modified + deleted or wopen:
                    viols.append({"clause": "I6", "detail": "gen on an existing output: outcome %s, output %s, %d write-mode "
                                                            "open(s)" % (o.kind, "changed" if "out.py" in modified + deleted
                                                                         else "unchanged", len(wopen)),
                                  "sig": {"what": "overwrote_or_accepted_existing", "returned": o.ok,
                                          "changed": "out.py" in modified + deleted,
                                          "phase_given": bool(stp.get("phase"))}})
            if existed and o.kind == "raised" and not o.fired and ("out.py" in modified + deleted):
                # whatever the phase: a gen that fails by itself must not have destroyed or altered the existing output
                viols.append({"clause": "I6", "detail": "gen raised %s by itself and the existing output was %s" % (
                    o.exc_type, "deleted" if "out.py" in deleted else "modified"),
                    "sig": {"what": "existing_output_damaged_by_failed_gen", "deleted": "out.py" in deleted,
                            "phase_given": bool(stp.get("phase"))}})
            if existed and not stp.get("phase") or existed and not sa_emit:
                pass
            elif o.ok and not o.fired and not stp.get("phase"):
                text = world.read("out.py")
                if text is None:
                    viols.append({"clause": "I2", "detail": "gen returned but wrote no output",
                                  "sig": {"what": "no_output", "emit": stp["emit"]}})
                else:
                    wrote = True
                    bump(probe, "gen_wrote_output")
                    bump(probe, "wrote_emit_" + stp["emit"])
                    if stp["emit"] != "json_schema":
                        vs = check_output(ent, stp, text, in_text)
                        if stp["emit"] in ("class", "function", "argparse"):
                            bump(probe, "i4_checked")
                        viols += vs
                    else:
                        try:
                            json.loads(text)
                        except ValueError as e:
                            viols.append({"clause": "I1", "detail": "json_schema output is not JSON: %s" % e,
                                          "sig": {"what": "not_json", "multi": len(ent["specs"]) > 1}})
            elif not o.ok and not o.fired and not existed and not stp.get("phase"):
                if "out.py" in created:
                    viols.append({"clause": "I1", "detail": "gen raised %s (%s) after having written %d bytes of output" % (
                        o.exc_type, (o.exc_msg or "")[:100], after["out.py"][1]),
                        "sig": {"what": "raised_after_writing", "emit": stp["emit"], "exc": o.exc_type}})
                else:
                    bump(probe, "gen_refused_without_writing")
            if o.fired and world.exists("out.py") and not existed:
                torso = True
            for x in viols:
                x["detail"] = "step %d `%s`: %s" % (si, " ".join(a for a in op["argv"] if "{ROOT}" not in a or a.endswith(".py")
                                                                  or a.endswith(".json"))[:160], x["detail"])
            res.violations += viols
            cst = dict(stp)
            if fault:
                cst["fault"] = fault
            concrete["steps"].append(cst)
            wd = SimWorld.digest(after)
            stats["world_states"].append(wd)
            history.append({"op": " ".join(op["argv"][1:3] + op["argv"][5:9]), "argv": op["argv"], "outcome": o.brief(), "world": wd,
                            "key": o.key()})
    finally:
        if old_home is None:
            os.environ.pop("HOME", None)
        else:
            os.environ["HOME"] = old_home
        world.destroy()
    files = {k: v for k, v in files.items() if v is not None}
    res.trace = {"kind": "c19-plan", "plan": concrete, "files": files, "history": history}
    res.digest = digest_of([[h.get("op"), h.get("key"), h.get("world")] for h in history])
    res.nontrivial = wrote
    res.sample = {"input": in_text[:600], "history": history}
    return res


def _enumerate(world, plan, stp, op, cp, reh_events, stats, probe, bump, si):
    """Every seam call of a gen on an absent output faulted once per kind; after each: I7 (nothing but the output
    touched), then gen AGAIN on whatever the failure left behind — if an output file exists (torso, empty, or complete)
    the second gen must refuse and leave it untouched (I6)."""
    out = []
    targets = []
    for e in reh_events:
        for kind in ("err", "crash"):
            targets.append((e, kind))
        if e["kind"] == "close_w" and e.get("nbytes", 0) > 1:
            targets.append((e, "tear"))
    for e, kind in targets:
        world.restore(cp)
        f = {"seam": "io", "at": e["io"], "kind": "crash" if kind == "crash" else "err"}
        if kind != "crash":
            f["errno"] = seams.ERRNOS_FOR.get(e["kind"], ("EIO",))[0]
            if e["kind"] == "close_w":
                f["keep"] = 0.5 if kind == "tear" else 0.0
        before = world.snapshot(with_mtime=True)
        o = ops.invoke(world, op, faults=[f])
        after = world.snapshot(with_mtime=True)
        stats["evaluations"] += 1
        bump(stats, "enumerated_faults")
        for fr in o.fired:
            bump(stats["faults_fired"], "%s@%s" % (fr["kind"] if fr["kind"] == "crash" else fr.get("errno", "err"), fr["event"]))
            stats["fault_sites"].append("%s:%s" % (fr["event"], fr.get("site")))
            bump(probe, "fault_fired")
            if fr["kind"] == "crash":
                bump(probe, "crash_fired")
        vs = []
        created, modified, deleted = SimWorld.diff(before, after)
        other = [x for x in created + modified + deleted if x not in ("out.py", "~/out.py")]
        if other:
            vs.append({"clause": "I7", "detail": "paths other than the output changed: %s" % other[:5],
                       "sig": {"what": "other_path_changed"}})
        if o.fired and world.exists("out.py"):
            bump(probe, "existing_output_is_torso")
            b2 = world.snapshot(with_mtime=True)
            o2 = ops.invoke(world, op)
            a2 = world.snapshot(with_mtime=True)
            c2, m2, d2 = SimWorld.diff(b2, a2)
            wopen = [ev for ev in o2.events if ev["kind"] in ("open_w", "open_raw_w") and ev.get("path") == "out.py"]
            if o2.ok or "out.py" in m2 + d2 or wopen:
                vs.append({"clause": "I6", "detail": "gen on the torso left by a failed gen: outcome %s, output %s, %d "
                                                     "write-mode open(s)" % (o2.kind, "changed" if "out.py" in m2 + d2 else
                                                                             "unchanged", len(wopen)),
                           "sig": {"what": "overwrote_or_accepted_existing", "returned": o2.ok,
                                   "changed": "out.py" in m2 + d2, "phase_given": False}})
        for x in vs:
            p2 = dict(plan, enum=False)
            p2["steps"] = [dict(s_) for s_ in plan["steps"][:si + 1]]
            p2["steps"][-1]["fault"] = f
            p2["steps"].append(dict(plan["steps"][si], fault=None))
            x["detail"] = "enumerated fault %s at seam call %d (%s %s): %s" % (kind, e["io"], e["kind"], e["path"], x["detail"])
            x["final"] = True
            x["trace"] = {"kind": "c19-plan", "plan": p2}
            out.append(x)
    return out


# ------------------------------------------------------------------------------ runner interface
def plan(tier, seed, scale=1.0):
    per = int({"quick": 150, "thorough": 3000}[tier] * scale)
    return [{"seed": seed * 1000 + w, "n": per, "tier": tier} for w in range(16)]


def work(task):
    known = load_known(ID)
    return explore(plans(), simulate, task["seed"], task["n"], known, batch=30 if task["tier"] == "quick" else 60,
                   max_shrink_runs=300, max_shrink_s=60)


def replay(trace):
    return simulate(trace["plan"]).violations
