"""C10 — output is a deterministic function of the input alone.

Multi-interpreter differential simulation (DESIGN.md §3 C10): the same seeded set T of operations is run
in K fresh interpreters, each with its own PYTHONHASHSEED and its own call history (a seeded permutation
of T with repetitions, so every operation is preceded by different unrelated calls and is itself repeated).
Every occurrence of an operation, in every interpreter, must produce the same digest.
"""
import json
import random
import subprocess

from cddsim import PYTHON, VERIF, gen, proc
from cddsim.runner import stable_hash

ID = "C10"
LEVEL = "exploration"
RULE = ("T = seeded operations: function/class/argparse parses of sources whose docstring documents a subset or a "
        "permutation of the signature (>= 2 undocumented parameters forced in half of them), each also re-emitted through "
        "four emitters; all nine emitters on seeded specs; the commands doctrans, sync, sync_properties, gen (with "
        "--emit-and-infer-imports / --prepend), exmod, gen_routes + openapi_bulk on private copies of generated projects. "
        "K interpreters (hash seeds 0..K-2 and 'random'), each running its own seeded permutation of T in which every "
        "operation occurs 1..3 times. Digest = sha256 of the canonical outcome with dict/list order preserved (bare sets "
        "sorted), written files, stdout; the per-interpreter scratch root is rewritten to <ROOT>. Non-trivial = operation "
        "returned normally in at least one interpreter; distinct = distinct operation.")
ASSUMPTIONS = [
    "independence from directory enumeration order is not asserted (the property lists hash seed and call history)",
    "for an operation that raises, only the exception type is compared (messages may embed reprs)",
    "memory addresses (0x…) and the scratch root path are normalised before hashing; nothing else is",
]
REAL = ["cdd (working tree) in real fresh interpreters, one per history", "CPython hash randomisation (PYTHONHASHSEED)"]
STUBBED = ["nothing in the children; the parent only schedules which interpreter runs which history"]
TASK_TIMEOUT = {"quick": 900, "thorough": 5400}
STYLES = ("rest", "google", "numpydoc")


def probes():
    return ["partial_doc_with_2plus_undocumented", "permuted_doc", "import_inference_cmd", "gen_prepend_cmd", "exmod_cmd",
            "gen_infer_mixed_kinds", "gen_directory_cmd", "exmod_two_subpackages", "exmod_names_differing_in_case", "merge_all_lists_op", "json_schema_parse_ops", "same_path_same_stat_edit", "nameless_interface_emitted", "rest_doc_with_google_token", "ambiguous_symbol_any", "openapi_emit_ops", "gen_phase1_multi_fk", "docstring_with_footer",
            "sync_cmd", "doctrans_cmd", "openapi_cmd", "repeated_occurrences", "ops_ok_somewhere"]


# ------------------------------------------------------------------------------ operation builders
def _spec(rng, name, n_lo=2, n_hi=6):
    names = rng.sample(gen.PARAM_NAMES, rng.randint(n_lo, n_hi))
    nd = rng.randint(0, len(names))
    params = []
    for i, n in enumerate(names):
        typ = rng.choice(gen.SIMPLE_TYPES + ("Optional[int]", "Optional[str]", "Any", "Optional[Any]", "List[str]",
                                             "Union[int, str]", "dict", "Optional[List[str]]",
                                             # scalars the SQLAlchemy type table does not know, alone and inside a Union
                                             "bytes", "Union[str, bytes]", "Decimal", "Union[int, Decimal]", "complex"))
        default = None
        if i >= len(names) - nd:
            default = {"int": "3", "float": "0.5", "str": "'a'", "bool": "True", "List[str]": "['a']", "dict": "{}",
                       "Union[int, str]": "4"}.get(typ, "None")
        doc = " ".join(rng.choice(gen.WORDS) for _ in range(rng.randint(2, 5))).capitalize()
        if rng.random() < 0.3:
            # prose in the shapes the type guesser reacts to, with synonyms that normalise to the same type twice;
            # lines announcing a default in two different phrasings (which one wins must not depend on a set's order);
            # dotted type names from modules that only some of cdd's code paths import (what they resolve to must not
            # depend on what happens to be in sys.modules)
            doc = rng.choice(("number or float or int", "a str or string or bytes", "either int, integer or float",
                              "List of str or string", "one of `a`, `b` or `a`", "bool or boolean or int",
                              "int or float or number.", "Tuple of int or integer",
                              "Port to bind. Default: 8080. When TLS is enabled it defaults to 8443",
                              "Level. Default value is 3; with the fast flag it defaults to 1.",
                              "Size, defaults to 5. Default: 7",
                              "An `argparse.Namespace` or `dict`.", "A `black.Mode` or `str`.",
                              "either `json.JSONDecoder` or `dict`", "a `collections.OrderedDict` or `dict`",
                              "`pathlib.Path` or `str`"))
        params.append({"name": n, "typ": typ, "default": default, "doc": doc})
    return {"name": name, "doc": "Do the %s thing." % name, "params": params,
            "returns": rng.choice((None, {"typ": "int", "doc": "The result"}))}


def partial_doc_function(rng, probes_out):
    """def with full signature; the docstring documents a subset (>= 2 missing in half the cases) in a
    seeded order."""
    spec = _spec(rng, rng.choice(gen.FUNC_NAMES), 3, 6)
    params = spec["params"]
    if rng.random() < 0.5 and len(params) >= 3:
        k = rng.randint(0, len(params) - 2)
        probes_out["partial_doc_with_2plus_undocumented"] = probes_out.get("partial_doc_with_2plus_undocumented", 0) + 1
    else:
        k = rng.randint(max(0, len(params) - 1), len(params))
    documented = rng.sample(params, k)
    if documented != [p for p in params if p in documented]:
        probes_out["permuted_doc"] = probes_out.get("permuted_doc", 0) + 1
    style = rng.choice(STYLES)
    annotate = rng.random() < 0.5
    doc_spec = dict(spec, params=documented)
    sig = gen.render_signature(spec, annotate=annotate)
    doc = gen.render_docstring(doc_spec, style, indent="    ", with_types=not annotate)
    if rng.random() < 0.35:
        # text after the parameter section (a footer): parsers that edit a scanned structure in place show up when the
        # same docstring text is parsed twice in one process
        footer = rng.choice(("Example:\n      %s(1)" % spec["name"], "Notes\n    -----\n    Kept for later.",
                             "See also the other function.",
                             # prose lines that happen to be section markers of ANOTHER style: which style the text is
                             # taken for must be decided by the text alone, not by what was parsed earlier
                             "Returns: see the note above.", "Raises:\n      ValueError: never, in practice.",
                             "Args: as documented above.", "Kwargs: none are accepted."))
        if footer.split(":")[0] in ("Returns", "Raises", "Args", "Kwargs") and style == "rest":
            probes_out["rest_doc_with_google_token"] = probes_out.get("rest_doc_with_google_token", 0) + 1
        doc = doc[:doc.rindex('"""')].rstrip() + "\n\n    " + footer + '\n    """'
        probes_out["docstring_with_footer"] = probes_out.get("docstring_with_footer", 0) + 1
    lines = ["def %s(%s):" % (spec["name"], sig), doc,
             "    return %s" % ("0" if spec["returns"] else "None")]
    return "\n".join(lines) + "\n", spec


def build_T(rng, n_parse, n_emit, n_cmd):
    T, pr = [], {}

    def add(op):
        op_id = "op%03d" % len(T)
        T.append({"id": op_id, "op": op})
        return op_id

    for _ in range(n_parse):
        src, spec = partial_doc_function(rng, pr)
        add({"kind": "parse_source", "parser": "function", "source": src})
        for em in rng.sample(("docstring", "class_", "argparse_function", "function", "json_schema", "sqlalchemy"), 2):
            opts = {}
            if em in ("docstring", "class_", "argparse_function", "function"):
                opts["docstring_format"] = rng.choice(STYLES)
            add({"kind": "parse_emit", "parser": "function", "source": src, "emitter": em, "opts": opts})
    for _ in range(max(1, n_parse // 3)):
        spec = _spec(rng, rng.choice(gen.CLASS_NAMES), 1, 5)
        src = gen.render_class(spec)
        add({"kind": "parse_source", "parser": "class_", "source": src})
        add({"kind": "parse_emit", "parser": "class_", "source": src, "emitter": rng.choice(("function", "argparse_function",
                                                                                              "sqlalchemy", "json_schema")),
             "opts": {}})
        ap = gen.render_argparse(dict(spec, name="set_cli_args"))
        add({"kind": "parse_source", "parser": "argparse_function", "source": ap})
        add({"kind": "parse_emit", "parser": "argparse_function", "source": ap, "emitter": rng.choice(("class_", "function")),
             "opts": {}})
    for _ in range(n_emit):
        spec = _spec(rng, rng.choice(gen.FUNC_NAMES), 0, 5)
        em = rng.choice(("docstring", "function", "class_", "argparse_function", "json_schema", "sqlalchemy",
                         "sqlalchemy_table", "sqlalchemy_hybrid", "pydantic"))
        opts = {}
        if em in ("docstring", "function", "class_", "argparse_function", "sqlalchemy", "sqlalchemy_table",
                  "sqlalchemy_hybrid"):
            opts["docstring_format"] = rng.choice(STYLES)
        if rng.random() < 0.15:
            # an interface without a name (what a bare docstring or an anonymous schema parses to)
            spec = dict(spec, name=None)
            pr["nameless_interface_emitted"] = pr.get("nameless_interface_emitted", 0) + 1
        add({"kind": "emit", "emitter": em, "spec": spec, "opts": opts})
        if rng.random() < 0.2:
            add({"kind": "parse_docstring_emit", "text": "\n".join(gen.render_docstring_lines(spec, rng.choice(STYLES))),
                 "emitter": rng.choice(("json_schema", "argparse_function", "class_", "sqlalchemy", "docstring")), "opts": {}})
    for _ in range(max(2, n_parse // 6)):
        # JSON-schema documents: properties in a seeded order (optional ones before required ones too), `required` listed
        # in another seeded order - the parameter order read out of them must be the document's
        spec = _spec(rng, rng.choice(gen.CLASS_NAMES), 3, 6)
        props = {}
        order = list(spec["params"])
        rng.shuffle(order)
        for q in order:
            d = {"description": q["doc"], "type": {"int": "integer", "float": "number", "str": "string",
                                                    "bool": "boolean"}.get(q["typ"], "string")}
            if q["default"] not in (None, "None"):
                try:
                    d["default"] = json.loads(json.dumps(eval(q["default"], {})))
                except Exception:
                    pass
            props[q["name"]] = d
        required = [q["name"] for q in spec["params"] if q["default"] is None]
        rng.shuffle(required)
        doc = {"$id": "https://example.com/%s.schema.json" % spec["name"].lower(),
               "$schema": "https://json-schema.org/draft/2020-12/schema", "description": spec["doc"], "type": "object",
               "properties": props, "required": required}
        src = json.dumps(doc, indent=2)
        add({"kind": "parse_source", "parser": "json_schema", "source": src})
        add({"kind": "parse_emit", "parser": "json_schema", "source": src,
             "emitter": rng.choice(("class_", "function", "argparse_function", "sqlalchemy", "docstring")), "opts": {}})
        pr["json_schema_parse_ops"] = pr.get("json_schema_parse_ops", 0) + 1
    for _ in range(max(2, n_parse // 8)):
        # two modules whose __all__ lists get merged (what gen and exmod do when a file already exists): names that
        # coincide, that differ only in case, that start with an underscore or a digit-like suffix
        pool = ["Config", "config", "CONFIG", "parse", "Parse", "VERSION", "version", "load", "Load", "_private", "dump",
                "Alpha", "alpha", "beta_fn", "Beta_fn", "x1", "X1"]
        a, b = rng.sample(pool, rng.randint(2, 6)), rng.sample(pool, rng.randint(2, 6))
        mk = lambda names: "".join("%s = 1\n" % n for n in names) + "\n__all__ = %s\n" % json.dumps(names)
        add({"kind": "merge_all", "first": mk(a), "second": mk(b)})
        pr["merge_all_lists_op"] = pr.get("merge_all_lists_op", 0) + 1
    for _ in range(n_cmd):
        for op in command_ops(rng, pr):
            add(op)
    for m in rng.sample(proc.public_modules(), 4):
        add({"kind": "import", "module": m})
    return T, pr


def command_ops(rng, pr):
    def bump(k):
        pr[k] = pr.get(k, 0) + 1
    out = []
    # doctrans on a generated module
    from checks import c11
    mod = c11._draw_module(rng)
    out.append({"kind": "cmd", "files": {"m.py": mod},
                "argv": ["doctrans", "--filename", "{ROOT}/m.py", "--format", rng.choice(STYLES),
                         rng.choice(("--type-annotations", "--no-type-annotations"))]})
    bump("doctrans_cmd")
    # sync over class / method / argparse files
    spec = _spec(rng, "Config", 1, 4)
    other = _spec(rng, "Config", 1, 4)
    cls = "from typing import Optional\n\n\n" + gen.render_class(spec)
    meth = "from typing import Optional\n\n\nclass C(object):\n    \"\"\"C class\"\"\"\n\n" + \
           gen.render_function(dict(other, name="method"), style="rest", annotate=True, indent="    ", first="self")
    ap = gen.render_argparse(dict(other, name="set_cli_args"))
    out.append({"kind": "cmd", "files": {"cls.py": cls, "fn.py": meth, "ap.py": ap},
                "argv": ["sync", "--class", "{ROOT}/cls.py", "--class-name", "Config", "--function", "{ROOT}/fn.py",
                         "--function-name", "C.method", "--argparse-function", "{ROOT}/ap.py",
                         "--argparse-function-name", "set_cli_args", "--truth", rng.choice(("class", "function",
                                                                                            "argparse_function"))]})
    bump("sync_cmd")
    # sync_properties
    out.append({"kind": "cmd", "files": {"inp.py": cls, "out.py": cls.replace("Config", "Target")},
                "argv": ["sync_properties", "--input-filename", "{ROOT}/inp.py", "--input-param",
                         "Config.%s" % spec["params"][0]["name"], "--output-filename", "{ROOT}/out.py", "--output-param",
                         "Target.%s" % spec["params"][-1]["name"]]})
    # gen with import inference / prepend
    specs = [_spec(rng, n, 1, 4) for n in rng.sample(gen.CLASS_NAMES, rng.randint(1, 3))]
    mapping = "from typing import Optional\n\n\n" + "\n\n".join(gen.render_class(s) for s in specs)
    emit = rng.choice(("sqlalchemy", "sqlalchemy_table", "class", "argparse", "json_schema", "sqlalchemy_hybrid"))
    argv = ["gen", "--name-tpl", "{name}Gen", "--input-mapping", "{ROOT}/m.py", "--parse", "class", "--emit", emit,
            "-o", "{ROOT}/gen_out.py"]
    if rng.random() < 0.6:
        argv.append("--emit-and-infer-imports")
        bump("import_inference_cmd")
    if rng.random() < 0.4:
        argv += ["--prepend", "PREPENDED = True\\n"]
        bump("gen_prepend_cmd")
    out.append({"kind": "cmd", "files": {"m.py": mapping}, "argv": argv})
    # the same project directory converted again after an edit that keeps every file's size and timestamp (a default
    # 3 -> 7, a letter in a description; timestamps as preserved by cp -p / rsync -t / a checkout): two operations at the
    # same path, in whichever order the history puts them - nothing remembered from the first may show in the second
    edited = _same_size_edit(mapping)
    if edited != mapping:
        argv2 = [a for a in argv if a != "--emit-and-infer-imports"]
        for text_ in (mapping, edited):
            out.append({"kind": "cmd", "files": {"m.py": text_}, "argv": argv2, "root_tag": "proj-gen", "mtime": 1700000000})
        bump("same_path_same_stat_edit")
    # gen --parse infer over modules of different kinds in the same process
    sa_cols = rng.sample(("dataset_name", "tfds_dir", "as_numpy", "size", "label"), rng.randint(1, 3))
    sa_mod = ("from sqlalchemy import Boolean, Column, Integer, String\n\nBase = object\n\n\nclass Beta(Base):\n"
              "    \"\"\"\n    Beta model\n\n" + "".join("    :cvar %s: the %s\n" % (c, c) for c in sa_cols) +
              "    \"\"\"\n\n    __tablename__ = \"beta\"\n\n" +
              "".join("    %s = Column(%s, doc=\"the %s\"%s)\n" % (c, rng.choice(("String", "Integer", "Boolean")), c,
                                                                 ", primary_key=True" if i == 0 else ", default=1" if i == 1
                                                                 else "") for i, c in enumerate(sa_cols)))
    for files_, emit_ in (({"m.py": mapping}, rng.choice(("argparse", "sqlalchemy", "json_schema"))),
                          ({"m.py": sa_mod}, rng.choice(("class", "argparse", "json_schema"))),
                          ({"m.py": mapping + "\n\n" + sa_mod.split("Base = object\n", 1)[1]}, "class")):
        out.append({"kind": "cmd", "files": files_,
                    "argv": ["gen", "--name-tpl", "{name}Gen", "--input-mapping", "{ROOT}/m.py", "--parse", "infer", "--emit",
                             emit_, "-o", "{ROOT}/gen_out.py"]})
    bump("gen_infer_mixed_kinds")
    # exmod on a small package
    pkgname = rng.choice(("mypkg", "toolkit"))
    s1, s2 = _spec(rng, "Alpha", 1, 3), _spec(rng, "beta_fn", 1, 3)
    if rng.random() < 0.6:
        # names such as Any are exported by several modules cdd knows about: which import line is inferred for them
        # must not depend on what ran earlier in the process
        s1["params"].append({"name": "payload", "typ": rng.choice(("Any", "Optional[Any]")), "default": "None",
                             "doc": "Anything at all"})
        bump("ambiguous_symbol_any")
    files = {
        "src/%s/__init__.py" % pkgname: "from %s.alpha import Alpha\nfrom %s.sub.beta import beta_fn\n\n__all__ = [\"Alpha\", "
                                        "\"beta_fn\"]\n" % (pkgname, pkgname),
        "src/%s/alpha.py" % pkgname: "from typing import Any, List, Optional, Union\n\n\n" + gen.render_class(s1) +
                                     "\n__all__ = [\"Alpha\"]\n",
        "src/%s/sub/__init__.py" % pkgname: "from %s.sub.beta import beta_fn\n\n__all__ = [\"beta_fn\"]\n" % pkgname,
        "src/%s/sub/beta.py" % pkgname: "from typing import Any, List, Optional, Union\n\n\n" + gen.render_function(s2) +
                                        "\n__all__ = [\"beta_fn\"]\n",
    }
    if rng.random() < 0.6:
        # one module exporting names that differ only in case (class Alpha, function alpha, class ALPHA): all land in one
        # generated file, whose __all__ is the *merge* of three lists - any ordering key that ignores case ties here
        s4, s5 = _spec(rng, "alpha", 1, 3), _spec(rng, "ALPHA", 1, 3)
        files["src/%s/alpha.py" % pkgname] = ("from typing import Any, List, Optional, Union\n\n\n" + gen.render_class(s1) + "\n\n" +
                                              gen.render_function(s4) + "\n\n" + gen.render_class(s5) +
                                              "\n__all__ = [\"Alpha\", \"alpha\", \"ALPHA\"]\n")
        files["src/%s/__init__.py" % pkgname] = files["src/%s/__init__.py" % pkgname].replace(
            "import Alpha\n", "import ALPHA, Alpha, alpha\n").replace("[\"Alpha\", ", "[\"ALPHA\", \"Alpha\", \"alpha\", ")
        bump("exmod_names_differing_in_case")
    if rng.random() < 0.7:
        # a second sub-package and a sibling module: more than one entry per directory, so that the order in which the
        # file system lists them (directory-order seam) can matter
        s3 = _spec(rng, "Gamma", 1, 3)
        files["src/%s/extra/__init__.py" % pkgname] = "from %s.extra.gamma import Gamma\n\n__all__ = [\"Gamma\"]\n" % pkgname
        files["src/%s/extra/gamma.py" % pkgname] = ("from typing import Any, List, Optional, Union\n\n\n" +
                                                    gen.render_class(s3) + "\n__all__ = [\"Gamma\"]\n")
        files["src/%s/__init__.py" % pkgname] = files["src/%s/__init__.py" % pkgname].replace(
            "from %s.sub.beta" % pkgname, "from %s.extra.gamma import Gamma\nfrom %s.sub.beta" % (pkgname, pkgname)).replace(
            "\"beta_fn\"]", "\"Gamma\", \"beta_fn\"]")
        bump("exmod_two_subpackages")
    for emit_ in rng.sample(("class", "function", "argparse", "sqlalchemy_table", "sqlalchemy_hybrid"), 2):
        out.append({"kind": "cmd", "files": files, "sys_path": "src", "pkg": pkgname,
                    "argv": ["exmod", "-m", pkgname, "--emit", emit_, "-o", "{ROOT}/out", "-r"]})
    bump("exmod_cmd")
    # routes + openapi
    cols = rng.sample(("dataset_name", "tfds_dir", "as_numpy", "size", "label"), rng.randint(1, 3))
    model = ("from sqlalchemy import Boolean, Column, Integer, String\n\nBase = object\n\n\nclass Config(Base):\n"
             "    \"\"\"\n    Config model\n\n" + "".join("    :cvar %s: the %s\n" % (c, c) for c in cols) +
             "    \"\"\"\n\n    __tablename__ = \"config_tbl\"\n\n" +
             "".join("    %s = Column(String, doc=\"the %s\"%s)\n" % (c, c, ", primary_key=True" if i == 0 else "")
                     for i, c in enumerate(cols)))
    out.append({"kind": "cmd", "files": {"models.py": model},
                "argv": ["gen_routes", "--crud", rng.choice(("CRD", "CR", "C")), "--model-path", "{ROOT}/models.py",
                         "--model-name", "Config", "--routes-path", "{ROOT}/routes.py"]})
    # routes for a second, differently named model, each followed by openapi_bulk over its own project: a document
    # must not contain leftovers (request bodies, schemas) of documents generated earlier in the process
    for mname2 in rng.sample(("Dataset", "Invoice", "Order", "Owner"), 2):
        model2 = model.replace("class Config(Base)", "class %s(Base)" % mname2).replace('"config_tbl"', '"%s_tbl"' % mname2.lower()) \
            .replace("Config model", "%s model" % mname2)
        out.append({"kind": "cmd", "files": {"models.py": model2},
                    "argv": ["gen_routes", "--crud", rng.choice(("CRD", "CR", "C", "CD")), "--model-path", "{ROOT}/models.py",
                             "--model-name", mname2, "--routes-path", "{ROOT}/routes.py"],
                    "then": [{"fn": "cdd.compound.openapi.gen_openapi.openapi_bulk",
                              "kwargs": {"app_name": "rest_api", "model_paths": ["{ROOT}/models.py"],
                                         "routes_paths": ["{ROOT}/routes.py"]}}]})
    bump("openapi_cmd")
    # the OpenAPI emitter on two different models (two operations): leftovers of one must not appear in the other
    for mname in rng.sample(("Owner", "Pet", "Invoice", "Dataset"), 2):
        mcols = rng.sample(("name", "age", "size", "label", "kind"), rng.randint(1, 3))
        schema = {"$id": "https://example.com/%s.json" % mname.lower(), "type": "object", "description": "The %s" % mname,
                  "properties": {c: {"description": "the %s" % c, "type": rng.choice(("string", "integer", "boolean"))}
                                 for c in mcols}, "required": mcols[:1]}
        out.append({"kind": "openapi_emit", "entries": [[mname, schema, "/api/%s" % mname.lower(), mcols[0],
                                                          rng.choice(("CRD", "CR", "CD"))]]})
    bump("openapi_emit_ops")
    # gen --phase 1 / 2 on a directory of SQLAlchemy models whose Node references >= 3 other tables
    others = rng.sample(("Element", "Owner", "Pet", "Invoice", "Dataset"), rng.randint(2, 4))

    def model_src(name, fks=()):
        body = ["from sqlalchemy import Column, ForeignKey, Integer, String", "", "Base = object", "", "",
                "class %s(Base):" % name, '    """%s model"""' % name, "", '    __tablename__ = "%s"' % name.lower(), "",
                "    %s_id = Column(Integer, primary_key=True)" % name.lower()]
        for fk in fks:
            body.append("    primary_%s = Column(%s, ForeignKey('%s.not_the_right_primary_key'))" % (fk.lower(), fk, fk.lower()))
        return "\n".join(body) + "\n"
    files_p = {"models/Node.py": model_src("Node", others)}
    for o_ in others:
        files_p["models/%s.py" % o_] = model_src(o_)
    common = ["--name-tpl", "{name}", "--input-mapping", "{ROOT}/models/Node.py", "--emit", "sqlalchemy", "-o",
              "{ROOT}/models/Node.py"]
    out.append({"kind": "cmd", "files": files_p, "argv": ["gen"] + common + ["--phase", "1"]})
    bump("gen_phase1_multi_fk")
    # gen over a DIRECTORY of modules: the order in which the file system happens to list it is not part of the input
    dspecs = [_spec(rng, n, 1, 3) for n in rng.sample(gen.CLASS_NAMES, rng.randint(2, 4))]
    out.append({"kind": "cmd",
                "files": {"models/%s.py" % s_["name"].lower(): "from typing import Optional\n\n\n" + gen.render_class(s_)
                          for s_ in dspecs},
                "argv": ["gen", "--name-tpl", "{name}Gen", "--input-mapping", "{ROOT}/models", "--parse", "class", "--emit",
                         rng.choice(("argparse", "sqlalchemy", "class")), "-o", "{ROOT}/gen_out.py"]})
    bump("gen_directory_cmd")
    return out


def _same_size_edit(text):
    """Another program of the same byte length: the first int default changes its digit, else a letter of the first
    description changes."""
    import re
    m = re.search(r"(: int = )(\d)\b", text)
    if m:
        return text[:m.start(2)] + ("7" if m.group(2) != "7" else "3") + text[m.end(2):]
    m = re.search(r"(:cvar \w+: )([A-Za-z])", text)
    if m:
        return text[:m.start(2)] + ("Q" if m.group(2) != "Q" else "Z") + text[m.end(2):]
    return text


def build_histories(rng, T, K):
    hists = []
    for k in range(K):
        seq = []
        for item in T:
            reps = rng.choice((1, 1, 2, 3))
            seq += [item] * reps
        rng.shuffle(seq)
        hists.append(seq)
    return hists


# ------------------------------------------------------------------------------------ execution
def run_child(ops_seq, hashseed, verbose=None, timeout=1500, dirorder=0):
    plan = {"ops": ops_seq, "verbose": verbose, "dirorder": dirorder}
    p = subprocess.run([PYTHON, VERIF + "/cddsim/c10_child.py"], input=json.dumps(plan), stdout=subprocess.PIPE,
                       stderr=subprocess.PIPE, text=True, timeout=timeout, env=proc.child_env(hashseed), cwd="/")
    lines = [ln for ln in p.stdout.splitlines() if ln.startswith("{")]
    if not lines:
        raise RuntimeError("C10 child died (rc=%s): %s" % (p.returncode, (p.stderr or "")[-1500:]))
    return json.loads(lines[-1])


def work(task):
    """One worker = one interpreter (history + hash seed)."""
    res = run_child(task["history"], task["hashseed"], dirorder=task.get("dirorder", 0))
    return {"stats": {"runs": 1, "commands": len(task["history"]), "evaluations": len(task["history"]),
                      "seeds": [task["seed"]],
                      "faults_fired": {"directory_order_permuted@listdir/scandir": res.get("dir_calls_permuted", 0)}},
            "violations": [], "samples": [], "digests": [], "nontrivial": [],
            "child": {"hashseed": task["hashseed"], "results": res["results"], "k": task["k"]}}


def plan(tier, seed, scale=1.0):
    rng = random.Random(seed)
    if tier == "quick":
        T, pr = build_T(rng, int(160 * scale), int(120 * scale), int(14 * scale))
        K = 16
    else:
        T, pr = build_T(rng, int(260 * scale), int(200 * scale), int(25 * scale))
        K = 32
    hists = build_histories(rng, T, K)
    seeds = list(range(K - 1)) + ["random"]
    # directory-enumeration order per interpreter: 0 = the file system's own, 1 = sorted, 2 = reversed, >= 3 = seeded
    return [{"seed": seed, "k": k, "hashseed": seeds[k], "dirorder": (0, 1, 2, 3 + k)[k % 4], "history": hists[k],
             "_T": len(T), "_probes": pr} for k in range(K)]


def analyse(tasks, results):
    """Called by the runner after all children finished: compare digests per operation."""
    by_op = {}
    raw_by_op = {}
    kinds = {}
    for r in results:
        c = r["child"]
        for pos, rec in enumerate(c["results"]):
            by_op.setdefault(rec["id"], []).append((c["k"], pos, rec["digest"]))
            raw_by_op.setdefault(rec["id"], set()).add(rec.get("raw", rec["digest"]))
            if rec["kind"] == "ok":
                kinds[rec["id"]] = "ok"
            kinds.setdefault(rec["id"], rec["kind"])
    tasks_by_k = {t["k"]: t for t in tasks}
    op_by_id = {}
    for t in tasks:
        for item in t["history"]:
            op_by_id[item["id"]] = item["op"]
    stats = {"probes": dict(tasks[0].get("_probes", {})), "outcomes": {}, "extra": {"operations": len(op_by_id),
                                                                                  "interpreters": len(tasks)}}
    stats["probes"]["ops_ok_somewhere"] = sum(1 for k in kinds.values() if k == "ok")
    stats["probes"]["repeated_occurrences"] = sum(1 for v in by_op.values() if len(v) > len(tasks))
    for oid, k in kinds.items():
        key = "%s:%s" % (op_by_id[oid].get("kind") if op_by_id[oid]["kind"] != "cmd" else "cmd_" + op_by_id[oid].get(
            "argv", [op_by_id[oid].get("fn", "sdk")])[0], k)
        stats["outcomes"][key] = stats["outcomes"].get(key, 0) + 1
    viols = []
    # one representative per operation kind is minimised and reported; the other disagreeing operations of that kind
    # are counted in its detail (they share the class)
    by_kind = {}
    for oid in sorted(by_op):
        if len(set(d for _, _, d in by_op[oid])) > 1:
            by_kind.setdefault(_kind(op_by_id[oid]), []).append(oid)
    for kind in sorted(by_kind):
        oid = by_kind[kind][0]
        v = minimise(oid, op_by_id[oid], by_op[oid], tasks_by_k)
        if len(by_kind[kind]) > 1:
            v["detail"] += " (+%d more disagreeing operations of kind %s)" % (len(by_kind[kind]) - 1, kind)
        viols.append(v)
    stats["extra"]["disagreeing_operations"] = sum(len(v) for v in by_kind.values())
    for oid in sorted(by_op):
        occ = by_op[oid]
        digs = sorted(set(d for _, _, d in occ))
        if len(digs) > 1:
            continue
        elif len(raw_by_op.get(oid, ())) > 1:
            # identical up to object addresses: the output embeds a repr such as <ast.List object at 0x7f…>
            viols.append({"clause": "K1",
                          "detail": "operation %s (%s): output differs between occurrences only in an embedded memory address "
                                    "(0x…)" % (oid, _describe(op_by_id[oid])),
                          "sig": {"what": "memory_address_in_output", "op_kind": _kind(op_by_id[oid]).split(":")[0]},
                          "trace": {"kind": "c10-diff", "op": {"id": oid, "op": op_by_id[oid]}, "raw": True,
                                    "a": {"hashseed": 0, "before": []}, "b": {"hashseed": 1, "before": []}}})
    nontrivial = [oid for oid, k in kinds.items() if k == "ok"]
    samples = [{"operation": op_by_id[o]} for o in sorted(op_by_id)[:2]]
    samples.append({"history_of_interpreter_0": [i["id"] for i in tasks[0]["history"]][:40],
                    "hashseed": tasks[0]["hashseed"]})
    return {"stats": stats, "violations": viols, "digests": sorted(op_by_id), "nontrivial": nontrivial,
            "samples": samples}


MIN_BUDGET = 70          # child-pair executions per minimised violation
MAX_MINIMISED = 6        # further disagreeing operations are reported un-minimised (full prefixes in the trace)
_minimised = [0]


def minimise(oid, op, occ, tasks_by_k):
    """(1) two interpreters, (2) equalise hash seeds -> classify, (3) chunked delta-debugging of the preceding
    calls, all within a fixed budget of child executions."""
    first = occ[0]
    other = next(o for o in occ if o[2] != first[2])
    ka, kb = first[0], other[0]
    same_interp = ka == kb
    item = {"id": oid, "op": op}

    def prefix(k, pos):
        return tasks_by_k[k]["history"][:pos]

    sa, sb = tasks_by_k[ka]["hashseed"], tasks_by_k[kb]["hashseed"]
    a = {"hashseed": sa if sa != "random" else 12345, "before": prefix(ka, first[1]),
         "dirorder": tasks_by_k[ka].get("dirorder", 0)}
    b = {"hashseed": sb if sb != "random" else 54321, "before": prefix(kb, other[1]),
         "dirorder": tasks_by_k[kb].get("dirorder", 0)}
    budget = [MIN_BUDGET if _minimised[0] < MAX_MINIMISED else 0]
    _minimised[0] += 1

    def differs(a_, b_):
        if budget[0] <= 0:
            return False
        budget[0] -= 1
        da = run_child(a_["before"] + [item], a_["hashseed"], dirorder=a_.get("dirorder", 0))["results"][-1]["digest"]
        db = run_child(b_["before"] + [item], b_["hashseed"], dirorder=b_.get("dirorder", 0))["results"][-1]["digest"]
        return da != db

    cls = "unclassified"
    if budget[0] > 0:
        if differs(dict(a, before=[], hashseed=0, dirorder=1), dict(b, before=[], hashseed=0, dirorder=2)) and \
                not differs(dict(a, before=[], hashseed=0, dirorder=1), dict(b, before=[], hashseed=1, dirorder=1)):
            # same hash seed, no history, only the order in which the file system lists a directory differs
            a, b, cls = dict(a, before=[], hashseed=0, dirorder=1), dict(b, before=[], hashseed=0, dirorder=2), \
                "directory_order"
        elif a["hashseed"] != b["hashseed"] and differs(dict(a, before=[], dirorder=1), dict(b, before=[], dirorder=1)):
            a, b, cls = dict(a, before=[], dirorder=1), dict(b, before=[], dirorder=1), "hash_seed"
            # (kept below: the original order of the remaining classifications)
        elif a["hashseed"] != b["hashseed"] and differs(dict(a, before=[]), dict(b, before=[])):
            a, b, cls = dict(a, before=[]), dict(b, before=[]), "hash_seed"
        elif differs(dict(a, hashseed=0), dict(b, hashseed=0)):
            a, b, cls = dict(a, hashseed=0), dict(b, hashseed=0), "call_history"
            # keep only the commands / same-kind calls first (cheap guess), then ddmin by halving chunks
            for side in ("a", "b"):
                cur = a if side == "a" else b
                if not cur["before"]:
                    continue
                cand = dict(cur, before=[])
                if differs(cand if side == "a" else a, cand if side == "b" else b):
                    cur["before"] = []
                    continue
                chunk = max(1, len(cur["before"]) // 2)
                while chunk >= 1 and budget[0] > 0:
                    i = 0
                    while i < len(cur["before"]) and budget[0] > 0:
                        cand = dict(cur, before=cur["before"][:i] + cur["before"][i + chunk:])
                        if differs(cand if side == "a" else a, cand if side == "b" else b):
                            cur["before"] = cand["before"]
                        else:
                            i += chunk
                    chunk //= 2
        elif differs(a, b):
            cls = "hash_seed_and_history"
    detail = "operation %s (%s) gives different output in two interpreters: hashseed %s after %d calls vs hashseed %s after " \
             "%d calls [%s dependence]%s" % (oid, _describe(op), a["hashseed"], len(a["before"]), b["hashseed"],
                                             len(b["before"]), cls, " (same interpreter, different occurrence)"
                                             if same_interp else "")
    if a.get("dirorder", 0) != b.get("dirorder", 0):
        detail += " (directory listing order: policy %s vs policy %s)" % (a.get("dirorder", 0), b.get("dirorder", 0))
    return {"clause": "K1", "detail": detail, "sig": {"what": cls, "op_kind": _kind(op)},
            "trace": {"kind": "c10-diff", "op": item, "a": a, "b": b}}


def _kind(op):
    if op["kind"] == "cmd":
        return "cmd:" + (op.get("argv") or [op.get("fn")])[0]
    return "%s:%s" % (op["kind"], op.get("parser") or op.get("emitter") or "")


def _describe(op):
    if op["kind"] == "cmd":
        return " ".join(op.get("argv", [op.get("fn", "")]))[:160]
    if "source" in op:
        return "%s %s of %r" % (op["kind"], op.get("parser"), op["source"][:100])
    return json.dumps(op)[:160]


def replay(trace):
    item = trace["op"]
    va = run_child(trace["a"]["before"] + [item], trace["a"]["hashseed"], verbose=[item["id"]],
                   dirorder=trace["a"].get("dirorder", 0))["results"][-1]
    vb = run_child(trace["b"]["before"] + [item], trace["b"]["hashseed"], verbose=[item["id"]],
                   dirorder=trace["b"].get("dirorder", 0))["results"][-1]
    if trace.get("raw") and va["digest"] == vb["digest"] and va.get("raw") != vb.get("raw"):
        return [{"clause": "K1", "detail": "outputs differ only in an embedded memory address: %s" % json.dumps(
            va.get("outcome"))[:500], "sig": (trace.get("violation") or {}).get("sig") or {"what": "memory_address_in_output"}}]
    if va["digest"] != vb["digest"]:
        return [{"clause": "K1", "detail": "outputs differ: %s  VERSUS  %s" % (
            json.dumps(va.get("outcome"))[:600], json.dumps(vb.get("outcome"))[:600]),
            "sig": (trace.get("violation") or {}).get("sig") or {"what": "differs"}}]
    return []
