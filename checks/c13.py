"""C13 — sync_properties updates exactly the selected property.

Two files on the simulated disk (DESIGN.md §3 C13): an input module and an output module, both rendered by
this file's own renderer, and a history of 1..3 `sync_properties` commands (real CLI entry) on the same output
file.  The reference model is the output module's AST before the command with exactly the selected locations
replaced; everything is compared as ASTs (black / ast.unparse may re-format text).  I/O faults (error, torn
close, crash) are placed on seam calls of a command by the rehearsal pattern, and on flagged plans every seam
call of the last command is faulted once per kind.
"""
import ast
import copy
import os

from hypothesis import strategies as st

from cddsim import hyp, ops, proc, seams
from cddsim.hyp import SimResult, digest_of, explore
from cddsim.runner import load_known
from cddsim.world import SimWorld

ID = "C13"
LEVEL = "exploration"
RULE = ("Hypothesis-drawn pairs of modules (1..3 classes/functions each, in any order: classes with 1..3 annotated "
        "attributes and 0..2 methods, functions/methods with 1..5 positional parameters of which a drawn suffix has "
        "defaults, optionally keyword-only parameters, *args, **kwargs, self/cls/static first parameter, unannotated "
        "parameters, value-less attributes, docstrings; the input module also holds top-level tuples/lists for "
        "--input-eval) written to the simulated disk, then a history of 1..3 sync_properties commands through "
        "cdd.__main__.main on the same output file, each with 1..2 (input-param, output-param) pairs drawn over all "
        "valid dotted paths of the *current* files (Class.attr, func.param, Class.method.param, keyword-only), wrap "
        "template on/off, --input-eval on/off, black present/absent; one seeded I/O fault (error / torn close / crash "
        "at a drawn seam call) in ~30% of commands and, on flagged plans, every seam call of the last command faulted "
        "once per kind; on every 80th (quick) / 12th (thorough) plan additionally every valid (input path, output "
        "path) of the two initial files as a one-pair command of its own. D1/D5 are judged after every command and "
        "every injected fault, D2-D4 after every command that returned without a fault. Non-trivial = at least one "
        "command returned normally and a reach probe fired; distinct = distinct outcome digest (argv, outcome, seam "
        "log, world snapshot).")
ASSUMPTIONS = [
    "syntactic identity is judged on ASTs (ast.dump without positions): comments, quoting and layout are not part of "
    "the statement, the command re-renders the whole file",
    "a (input, output) pair is in the domain only if the incoming name does not already name another parameter / "
    "attribute / method of the target's scope, the target is not self/cls, and (for a class-attribute target) the "
    "input carries an annotation; two pairs of one command select different output locations",
    "the value of a synchronised class attribute is not fixed by the statement: attribute<-attribute may carry the "
    "input's value or keep the previous one, --input-eval may keep or drop it, attribute<-parameter is not asserted",
    "a synchronised parameter keeps its own default; only when an attribute *with a value* is synchronised into a "
    "parameter of the same name that has a default may that default become the attribute's value (cdd's documented "
    "'set default' step) - the default of any *other* parameter may never change",
    "with --input-eval and a wrap template both Literal[...] and the wrapped Literal[...] are accepted",
    "when the command fails (raises, simulated crash) the output file may be anything the fault left; the history "
    "continues after a user recovery (output restored from the last good copy); D1 and D5 still hold",
    "faults are one-shot; process-crash semantics (closed files persist, open buffers are lost); no power loss",
    "regions of open known findings (F-C13-2/3/4/6, computed as structural predicates of the two files) are drawn in "
    "about one command of six only; each is still replayed on every run; a finding whose status becomes 'fixed' "
    "re-opens its region automatically",
    "a keyword-only *input* parameter is refused by cdd (AssertionError, nothing written) - not a violation; such "
    "inputs are drawn in a third of the pairs",
    "async definitions, nested definitions, positional-only parameters, attributes defined after methods, module "
    "docstrings in the input file and string values that spell the name of a parameter/attribute are not generated",
]
REAL = ["cdd (all modules, working tree)", "cdd.__main__.main argv parsing", "CPython ast / ast.unparse", "black",
        "the tmpfs file system for everything that persists"]
STUBBED = ["durability of write-mode file objects (SimFile: buffered until close, fault decides the prefix)",
           "OS error returns (synthetic OSError with real errno)", "process crash (SimCrash at a seam call)",
           "absence of black (cdd's own fallback formatter installed in cdd.shared.emit.file)",
           "the user (seeded histories, recovery by restoring the last good copy)"]

IN_REL, OUT_REL, NOTES_REL = "in_.py", "out_.py", "notes.txt"
CLASSES = ("Config", "Settings", "Loader", "Model", "Options")
FUNCS = ("compute", "build", "load_data", "fit", "run_job", "resolve")
METHODS = ("run", "make", "apply", "reset")
NAMES = ("alpha", "beta", "count", "size", "label", "mode", "rate", "depth", "flag", "limit")
KWNAMES = ("strict", "timeout", "retries", "dry", "mode", "limit")
TYPES = ("int", "str", "float", "bool", "Optional[int]", "Optional[str]", "List[str]", "Literal['a', 'b']",
         "Dict[str, int]", "Optional[List[float]]",
         # forward references: the annotation is a string literal and must arrive as one
         '"Optional[Node]"', "'Settings'")
VALUES = {
    '"Optional[Node]"': ("None",), "'Settings'": ("None",),
    "int": ("0", "1", "7", "-3", "120"), "str": ("'a'", "'mnist'", "'x_y'", "\"q's\"", "'Straße'", "'déjà vu µm'"), "float": ("0.5", "-2.0", "1e-3"),
    "bool": ("True", "False"), "Optional[int]": ("None", "4"), "Optional[str]": ("None", "'left'"),
    "List[str]": ("['a']", "[]", "('x', 'y')"), "Literal['a', 'b']": ("'a'", "'b'"), "Dict[str, int]": ("{}", "{'k': 1}"),
    "Optional[List[float]]": ("None", "[0.5, 1.0]"), None: ("None", "2", "'u'"),
}
CONSTS = ("CHOICES", "SIZES", "KINDS")
CONST_ITEMS = ("a", "b", "np", "tf", "left", 0, 1, 2, 5, 16)
WRAPS = ("Optional[{output_param}]", "List[{output_param}]", "Optional[Union[{output_param}, str]]")
MODULE_DOC = '"""Settings used by the job.\n\n   Kept next to the code.\n"""'
# open known findings whose region the generator draws only in `rough` commands (DESIGN.md §5.2)
AVOIDABLE = ("F-C13-2", "F-C13-3", "F-C13-4", "F-C13-6")
MAX_REPORT = 8
TASK_TIMEOUT = {"quick": 900, "thorough": 5400}


def probes():
    return ["attr_from_attr", "param_from_attr", "param_from_param", "attr_from_param", "input_eval", "wrap_template",
            "kwonly_target", "self_offset_target", "middle_position_target", "first_position_target",
            "last_position_target", "target_with_default", "target_without_default", "two_pairs", "same_name_pair",
            "black_absent", "fault_fired", "crash_fired", "torn_close", "second_command_same_file",
            "raised_without_fault", "user_recovery", "input_edited_same_size_same_second"]


# ------------------------------------------------------------------------------------ generators
def _value_for(typ):
    return st.sampled_from(VALUES[typ])


@st.composite
def _param(draw, name, has_default):
    typ = draw(st.sampled_from(TYPES))
    if draw(st.integers(0, 5)) == 5:
        typ = None
    return {"name": name, "typ": typ, "default": draw(_value_for(typ)) if has_default else None}


@st.composite
def func_spec(draw, name, method=False):
    n = draw(st.integers(1, 5))
    pnames = draw(st.lists(st.sampled_from(NAMES), min_size=n, max_size=n, unique=True))
    n_def = draw(st.integers(0, n))
    params = [draw(_param(pn, i >= n - n_def)) for i, pn in enumerate(pnames)]
    kwonly, vararg = [], None
    if draw(st.integers(0, 3)) == 3:
        for kn in draw(st.lists(st.sampled_from(KWNAMES), min_size=1, max_size=2, unique=True)):
            if kn not in pnames:
                kwonly.append(draw(_param(kn, draw(st.booleans()))))
        if draw(st.integers(0, 2)) == 2:
            vararg = "args"
    first = draw(st.sampled_from(("self", "self", "self", "cls", None))) if method else None
    return {"kind": "func", "name": name, "params": params, "kwonly": kwonly, "vararg": vararg,
            "kwarg": "kwargs" if draw(st.integers(0, 5)) == 5 else None, "first": first, "method": method,
            "doc": draw(st.integers(0, 3)) == 3, "returns": draw(st.sampled_from((None, None, None, "int", "str")))}


@st.composite
def class_spec(draw, name):
    anames = draw(st.lists(st.sampled_from(NAMES), min_size=1, max_size=3, unique=True))
    attrs = []
    for an in anames:
        typ = draw(st.sampled_from(TYPES))
        valueless = draw(st.integers(0, 7)) == 7
        attrs.append({"name": an, "typ": typ, "value": None if valueless else draw(_value_for(typ))})
    mnames = draw(st.lists(st.sampled_from(METHODS), min_size=0, max_size=2, unique=True))
    return {"kind": "class", "name": name, "base": draw(st.sampled_from(("object", "", "Base"))),
            "doc": draw(st.integers(0, 3)) == 3, "attrs": attrs,
            "methods": [draw(func_spec(mn, method=True)) for mn in mnames]}


@st.composite
def module_spec(draw, role):
    used = set()
    items = []
    for _ in range(draw(st.integers(1, 3))):
        kind = draw(st.sampled_from(("class", "func")))
        pool = [n for n in (CLASSES if kind == "class" else FUNCS) if n not in used]
        name = draw(st.sampled_from(pool))
        used.add(name)
        items.append(draw(class_spec(name)) if kind == "class" else draw(func_spec(name)))
    spec = {"items": items, "consts": [], "doc": False}
    if role == "in":
        spec["shadow"] = draw(st.integers(0, 3)) == 3
        for cn in draw(st.lists(st.sampled_from(CONSTS), min_size=1, max_size=2, unique=True)):
            spec["consts"].append({"name": cn, "seq": draw(st.sampled_from(("tuple", "tuple", "list"))),
                                   "values": draw(st.lists(st.sampled_from(CONST_ITEMS), min_size=1, max_size=4)),
                                   # a later statement that extends the name (`X += (...)` / `X = X + [...]`): the
                                   # evaluated value is the final one, not the first literal
                                   "augment": draw(st.lists(st.sampled_from(CONST_ITEMS), min_size=1, max_size=2))
                                   if draw(st.integers(0, 3)) == 3 else []})
    else:
        spec["doc"] = draw(st.integers(0, 11)) == 11
        # which names the output module imports from typing: all it could need, only some (no Literal), a star import,
        # or the module itself - an import statement is a statement other than the selected location
        spec["typing_import"] = draw(st.sampled_from(("full", "full", "partial", "star", "module")))
    return spec


@st.composite
def _pair(draw):
    return {"out_pref": draw(st.sampled_from(("attr", "param", "any"))), "out_sel": draw(st.integers(0, 239)),
            "in_pref": draw(st.sampled_from(("attr", "param", "any"))), "in_sel": draw(st.integers(0, 239))}


@st.composite
def command(draw):
    pairs = [draw(_pair())]
    if draw(st.integers(0, 2)) == 2:
        pairs.append(draw(_pair()))
    cmd = {"pairs": pairs, "wrap": None, "eval": draw(st.integers(0, 4)) == 4, "fault": None,
           "rough": draw(st.integers(0, 5)) == 5,
           # before this command (not the first) the user edits the input's constants: every item is replaced by another
           # of the same length, within the same clock second (size and whole-second mtime of the file stay the same)
           "edit_input": draw(st.integers(0, 3)) == 3}
    if draw(st.integers(0, 3)) == 3:
        cmd["wrap"] = draw(st.sampled_from(WRAPS))
    if draw(st.integers(0, 9)) >= 7:
        cmd["fault"] = {"frac": draw(st.floats(0, 0.999)), "kind": draw(st.sampled_from(("err", "err", "crash"))),
                        "target": draw(st.sampled_from(("mut", "any"))), "errno_i": draw(st.integers(0, 2)),
                        "keep": draw(st.sampled_from((0.0, 0.5, 0.99)))}
    return cmd


@st.composite
def plans(draw, avoid=(), enum_every=4, all_pairs_every=80):
    return {"inp": draw(module_spec("in")), "out": draw(module_spec("out")),
            "cmds": draw(st.lists(command(), min_size=1, max_size=3)),
            "black": draw(st.sampled_from((True, True, True, False))),
            "enum": (draw(st.integers(0, enum_every - 1)) == enum_every - 1) if enum_every else False,
            "all_pairs": (draw(st.integers(0, all_pairs_every - 1)) == all_pairs_every - 1) if all_pairs_every else False,
            "avoid": sorted(avoid)}


# -------------------------------------------------------------------------------------- renderer
def _param_src(p):
    s = p["name"]
    if p["typ"] is not None:
        s += ": " + p["typ"]
        if p["default"] is not None:
            s += " = " + p["default"]
    elif p["default"] is not None:
        s += "=" + p["default"]
    return s


def render_func(f, indent=""):
    parts = [f["first"]] if f.get("first") else []
    parts += [_param_src(p) for p in f["params"]]
    if f.get("vararg"):
        parts.append("*" + f["vararg"])
    elif f.get("kwonly"):
        parts.append("*")
    parts += [_param_src(p) for p in f.get("kwonly", ())]
    if f.get("kwarg"):
        parts.append("**" + f["kwarg"])
    lines = []
    if f.get("method") and f.get("first") == "cls":
        lines.append(indent + "@classmethod")
    elif f.get("method") and f.get("first") is None:
        lines.append(indent + "@staticmethod")
    lines.append("%sdef %s(%s)%s:" % (indent, f["name"], ", ".join(parts),
                                      " -> " + f["returns"] if f.get("returns") else ""))
    if f.get("doc"):
        lines.append('%s    """Do the %s step."""' % (indent, f["name"]))
    if f.get("returns"):
        lines.append("%s    return %s" % (indent, {"int": "0", "str": "''"}[f["returns"]]))
    else:
        lines.append("%s    return %s" % (indent, f["params"][0]["name"]))
    return lines


def render_class(c):
    lines = ["class %s(%s):" % (c["name"], c["base"]) if c.get("base") else "class %s:" % c["name"]]
    if c.get("doc"):
        lines.append('    """Holds the %s values."""' % c["name"].lower())
        lines.append("")
    for a in c["attrs"]:
        lines.append("    %s: %s%s" % (a["name"], a["typ"], " = " + a["value"] if a["value"] is not None else ""))
    for m in c["methods"]:
        lines.append("")
        lines += render_func(m, "    ")
    return lines


def render_module(spec):
    out = []
    if spec.get("doc"):
        out += [MODULE_DOC, ""]
    out.append({"partial": "from typing import Dict, List, Optional, Union", "star": "from typing import *",
                "module": "import typing\nfrom typing import Optional"}.get(
        spec.get("typing_import"), "from typing import Dict, List, Literal, Optional, Union"))
    if any(it["kind"] == "class" and it.get("base") == "Base" for it in spec["items"]):
        out += ["", "", "class Base(object):", "    pass"]
    if spec.get("consts"):
        out.append("")
    for c in spec.get("consts", ()):
        inner = ", ".join(repr(v) for v in c["values"])
        if c["seq"] == "list":
            out.append("%s = [%s]" % (c["name"], inner))
        else:
            out.append("%s = (%s%s)" % (c["name"], inner, "," if len(c["values"]) == 1 else ""))
        if c.get("augment"):
            extra = ", ".join(repr(v) for v in c["augment"])
            if c["seq"] == "list":
                out.append("%s = %s + [%s]" % (c["name"], c["name"], extra))
            else:
                out.append("%s += (%s,)" % (c["name"], extra))
    if spec.get("shadow"):
        # a module-level annotated variable named like an attribute of the first class (settings modules often keep a
        # module-wide default next to the class): `Class.attr` must still select the attribute of the class
        cls = next((it for it in spec["items"] if it["kind"] == "class" and it.get("attrs")), None)
        if cls is not None:
            out += ["", "%s: bytes = b'module-level'" % cls["attrs"][0]["name"]]
    for it in spec["items"]:
        out += ["", ""]
        out += render_class(it) if it["kind"] == "class" else render_func(it)
    return "\n".join(out) + "\n"


# ------------------------------------------------------------------- independent reader of a module
def _names_of_args(a):
    out = [x.arg for x in a.posonlyargs + a.args + a.kwonlyargs]
    out += [x.arg for x in (a.vararg, a.kwarg) if x is not None]
    return out


def _func_locs(fn, at, prefix, in_class):
    a = fn.args
    off = 1 if in_class and a.args and a.args[0].arg in ("self", "cls") else 0
    scope = _names_of_args(a)
    base = {"kind": "param", "at": list(at), "off": off, "n_args": len(a.args), "n_defaults": len(a.defaults),
            "scope": scope, "fn": fn.name}
    out = []
    for j, arg in enumerate(a.args):
        if j >= off:
            out.append(dict(base, path="%s%s.%s" % (prefix, fn.name, arg.arg), name=arg.arg, list="args", idx=j,
                            annotated=arg.annotation is not None))
    for j, arg in enumerate(a.kwonlyargs):
        out.append(dict(base, path="%s%s.%s" % (prefix, fn.name, arg.arg), name=arg.arg, list="kwonlyargs", idx=j,
                        annotated=arg.annotation is not None))
    return out


def read_locations(tree):
    """Addressable locations of a module in source order (not derived from any cdd code)."""
    locs = []
    for bi, node in enumerate(tree.body):
        if isinstance(node, ast.ClassDef):
            scope = []
            for st_ in node.body:
                if isinstance(st_, ast.AnnAssign) and isinstance(st_.target, ast.Name):
                    scope.append(st_.target.id)
                elif isinstance(st_, ast.Assign):
                    scope += [t.id for t in st_.targets if isinstance(t, ast.Name)]
                elif isinstance(st_, (ast.FunctionDef, ast.AsyncFunctionDef, ast.ClassDef)):
                    scope.append(st_.name)
            for ai, st_ in enumerate(node.body):
                if isinstance(st_, ast.AnnAssign) and isinstance(st_.target, ast.Name):
                    locs.append({"kind": "attr", "path": "%s.%s" % (node.name, st_.target.id), "name": st_.target.id,
                                 "at": [bi, ai], "scope": scope, "annotated": True,
                                 "has_value": st_.value is not None})
                elif isinstance(st_, ast.FunctionDef):
                    locs += _func_locs(st_, [bi, ai], node.name + ".", True)
        elif isinstance(node, ast.FunctionDef):
            locs += _func_locs(node, [bi], "", False)
    seen, out = {}, []
    for loc in locs:
        seen[loc["path"]] = seen.get(loc["path"], 0) + 1
    for loc in locs:
        if seen[loc["path"]] == 1:      # an ambiguous dotted path selects nothing in particular
            out.append(loc)
    return out


_SWAP = {"a": "b", "b": "a", "np": "tf", "tf": "np", "left": "down", "down": "left", 0: 1, 1: 2, 2: 5, 5: 0, 16: 32, 32: 16}


def edited_input(spec):
    """The input spec after the user's same-length edit of its constants."""
    out = dict(spec)
    out["consts"] = [dict(c, values=[_SWAP.get(v, v) for v in c["values"]],
                          augment=[_SWAP.get(v, v) for v in c.get("augment", ())]) for c in spec.get("consts", ())]
    return out


def read_consts(tree):
    """Top-level sequence constants with their FINAL value: later `X += <literal>` and `X = X + <literal>` statements are
    followed (independent of cdd: a tiny interpreter over literals)."""
    vals, order = {}, []
    for node in tree.body:
        if isinstance(node, ast.Assign) and len(node.targets) == 1 and isinstance(node.targets[0], ast.Name):
            name = node.targets[0].id
            if isinstance(node.value, (ast.Tuple, ast.List)):
                try:
                    vals[name] = list(ast.literal_eval(node.value))
                except ValueError:
                    vals.pop(name, None)
                    continue
                if name not in order:
                    order.append(name)
            elif isinstance(node.value, ast.BinOp) and isinstance(node.value.op, ast.Add) \
                    and isinstance(node.value.left, ast.Name) and node.value.left.id == name and name in vals:
                try:
                    vals[name] = vals[name] + list(ast.literal_eval(node.value.right))
                except ValueError:
                    vals.pop(name, None)
            elif name in vals:
                vals.pop(name, None)        # rebound to something this reader does not follow: not a candidate
        elif isinstance(node, ast.AugAssign) and isinstance(node.target, ast.Name) and isinstance(node.op, ast.Add) \
                and node.target.id in vals:
            try:
                vals[node.target.id] = vals[node.target.id] + list(ast.literal_eval(node.value))
            except ValueError:
                vals.pop(node.target.id, None)
    return [{"kind": "const", "path": n, "name": n, "values": vals[n]} for n in order if vals.get(n)]


def _fn_at(tree, at):
    node = tree.body[at[0]]
    return node.body[at[1]] if len(at) == 2 else node


def _own_default(fn, loc):
    """(index into the defaults list, node) of the parameter's own default, aligned from the right."""
    a = fn.args
    if loc["list"] == "kwonlyargs":
        return loc["idx"], a.kw_defaults[loc["idx"]]
    k = loc["idx"] - (len(a.args) - len(a.defaults))
    return (k, a.defaults[k]) if k >= 0 else (None, None)


def _dump(node):
    return None if node is None else ast.dump(node, include_attributes=False)


# ------------------------------------------------ structural predicates of the known-finding regions
def _first_func_with_positional(body, name):
    for n in body:
        if isinstance(n, ast.FunctionDef) and any(x.arg == name for x in n.args.args):
            return n
    return None


def input_hazard(in_tree, loc):
    """F-C13-3 region: another function definition stands between the start of a scope on the dotted path and
    the selected definition (a function before the selected class; an earlier function / method with a
    positional parameter of the selected name), so a lookup that ignores function names cannot find it."""
    if loc["kind"] == "const":
        return False
    body = in_tree.body
    bi = loc["at"][0]
    if loc["kind"] == "attr" or len(loc["at"]) == 2:
        if any(isinstance(n, ast.FunctionDef) for n in body[:bi]):
            return True
        if loc["kind"] == "param":
            first = _first_func_with_positional(body[bi].body, loc["name"])
            return first is not None and first is not body[bi].body[loc["at"][1]]
        return False
    first = _first_func_with_positional(body, loc["name"])
    return first is not None and first is not body[bi]


def default_hazard(inn, out):
    """F-C13-2 region: an attribute with a value goes into a positional parameter of the same name, and the
    parameter's position counted from the first non-self parameter indexes the defaults list although that
    list is aligned from the right (not every such parameter has a default)."""
    if inn["kind"] != "attr" or not inn.get("has_value") or out["kind"] != "param" or out["list"] != "args":
        return False
    if inn["name"] != out["name"]:
        return False
    pos = out["idx"] - out["off"]
    aligned = out["n_defaults"] == out["n_args"] - out["off"]
    return (not aligned) and out["n_defaults"] > pos


def stale_hazard(prev_pairs, out, out_tree):
    """F-C13-6 region: an earlier pair of the same command moved the input node `X.a` (or `X.m.p`) into a class
    body that is visited before the output's own `X.a` (`X.m.p`), and this pair selects that output location:
    a replacement that goes by the first node carrying the queried location hits the moved node."""
    for pin, pout in prev_pairs:
        if pin["kind"] in ("attr", "param") and pout["kind"] == "attr" and pin["path"] == out["path"] \
                and pout["at"] < out["at"]:
            return True
    return False


def _cell(inn, out):
    return "%s_from_%s" % (out["kind"], "eval" if inn["kind"] == "const" else inn["kind"])


def resolve_pairs(cmd, in_tree, out_tree, avoid):
    """Concretise the drawn selectors against the files as they are now -> [(input loc, output loc)]."""
    in_locs = read_locations(in_tree)
    consts = read_consts(in_tree)
    out_locs = read_locations(out_tree)
    by_in = dict((l["path"], l) for l in in_locs + consts)
    by_out = dict((l["path"], l) for l in out_locs)
    scopes = {}
    chosen = []
    taken = set()
    careful = not cmd.get("rough")
    for pair in cmd["pairs"]:
        if "out" in pair:        # concrete (replay files, hand-written histories)
            inn, out = by_in.get(pair["in"]), by_out.get(pair["out"])
            if inn is None or out is None:
                continue
            chosen.append((inn, out))
            continue
        cands = [l for l in out_locs if l["path"] not in taken]
        pref = [l for l in cands if l["kind"] == pair["out_pref"]]
        cands = pref or cands
        if not cands:
            continue
        out = cands[pair["out_sel"] % len(cands)]
        skey = (out["kind"] == "attr", tuple(out["at"][:1] if out["kind"] == "attr" else out["at"]))
        scope = scopes.setdefault(skey, list(out["scope"]))
        if cmd["eval"]:
            ins = list(consts)
        else:
            ins = [l for l in in_locs if (l["name"] == out["name"] or l["name"] not in scope)
                   and (out["kind"] != "attr" or l["annotated"])]
            if pair["in_pref"] != "any":
                # a keyword-only *input* parameter is refused by cdd (AssertionError, nothing written): still in
                # the domain, but drawn in a third of the pairs only so that most commands get somewhere
                ins = [l for l in ins if l.get("list") != "kwonlyargs"]
            if careful:
                if "F-C13-3" in avoid:
                    ins = [l for l in ins if not input_hazard(in_tree, l)]
                if "F-C13-2" in avoid:
                    ins = [l for l in ins if not default_hazard(l, out)]
                if "F-C13-4" in avoid and cmd.get("wrap"):
                    ins = [l for l in ins if not (l["annotated"] and any(p[0]["path"] == l["path"] for p in chosen))]
                if "F-C13-6" in avoid and stale_hazard(chosen, out, out_tree):
                    ins = []
            pref = [l for l in ins if l["kind"] == pair["in_pref"]]
            ins = pref or ins
        if not ins:
            continue
        inn = ins[pair["in_sel"] % len(ins)]
        if inn["kind"] != "const":
            scope[scope.index(out["name"])] = inn["name"]
        taken.add(out["path"])
        chosen.append((inn, out))
    return chosen


def argv_of(cmd, chosen):
    argv = ["sync_properties", "--input-filename", "{ROOT}/" + IN_REL, "--output-filename", "{ROOT}/" + OUT_REL]
    for inn, out in chosen:
        argv += ["--input-param", inn["path"], "--output-param", out["path"]]
    if cmd.get("eval"):
        argv.append("--input-eval")
    if cmd.get("wrap"):
        argv += ["--output-param-wrap", cmd["wrap"]]
    return argv


# ---------------------------------------------------------------------------------------- oracle
_PLACEHOLDER = "C13_PLACEHOLDER"


def _wrap(tpl, ann):
    """The template with the annotation substituted, built on ASTs (no text round trip of the annotation)."""
    tree = ast.parse(tpl.format(output_param=_PLACEHOLDER), mode="eval").body

    class T(ast.NodeTransformer):
        def visit_Name(self, node):
            return copy.deepcopy(ann) if node.id == _PLACEHOLDER else node
    return T().visit(tree)


def expectation(cmd, inn, out, in_tree, before_tree):
    """What the selected location has to look like afterwards."""
    exp = {"kind": out["kind"], "cell": _cell(inn, out)}
    wrap = cmd.get("wrap")
    in_value = None
    if inn["kind"] == "const":
        lit = ast.parse("Literal[%s]" % ", ".join(repr(v) for v in inn["values"]), mode="eval").body
        exp["name"] = out["name"]
        exp["anns"] = [_dump(lit)] + ([_dump(_wrap(wrap, lit))] if wrap else [])
        exp["ann_src"] = ast.unparse(lit)
    else:
        if inn["kind"] == "attr":
            node = in_tree.body[inn["at"][0]].body[inn["at"][1]]
            ann, in_value = node.annotation, node.value
        else:
            fn = _fn_at(in_tree, inn["at"])
            ann = getattr(fn.args, inn["list"])[inn["idx"]].annotation
        exp["name"] = inn["name"]
        want = _wrap(wrap, ann) if (wrap and ann is not None) else ann
        exp["anns"] = [_dump(want)]
        exp["ann_src"] = None if want is None else ast.unparse(want)
    if out["kind"] == "attr":
        prev = before_tree.body[out["at"][0]].body[out["at"][1]].value
        if inn["kind"] == "attr":
            exp["values"] = [_dump(in_value), _dump(prev)]
        elif inn["kind"] == "const":
            exp["values"] = [_dump(prev), None]
        else:
            exp["values"] = None        # attribute <- parameter: not fixed by the statement
    else:
        fn = _fn_at(before_tree, out["at"])
        _, own = _own_default(fn, out)
        exp["defaults"] = [_dump(own)]
        if inn["kind"] == "attr" and inn["name"] == out["name"] and in_value is not None and own is not None:
            exp["defaults"].append(_dump(in_value))
        exp["in_value"] = _dump(in_value)
    return exp


def _selected_after(after_tree, out):
    try:
        if out["kind"] == "attr":
            return after_tree.body[out["at"][0]].body[out["at"][1]], None
        fn = _fn_at(after_tree, out["at"])
        if not isinstance(fn, ast.FunctionDef):
            return None, None
        return getattr(fn.args, out["list"])[out["idx"]], _own_default(fn, out)[1]
    except (IndexError, AttributeError):
        return None, None


def check_location(exp, after_tree, out):
    """D3 for one pair -> (part that differs or None, observed, expected)."""
    node, default = _selected_after(after_tree, out)
    if out["kind"] == "attr":
        if not isinstance(node, ast.AnnAssign) or not isinstance(node.target, ast.Name):
            return "kind", type(node).__name__, "AnnAssign"
        if node.target.id != exp["name"]:
            return "name", node.target.id, exp["name"]
        if _dump(node.annotation) not in exp["anns"]:
            return "annotation", ast.unparse(node.annotation), exp["ann_src"]
        if exp["values"] is not None and _dump(node.value) not in exp["values"]:
            return "value", _dump(node.value), exp["values"]
        return None, None, None
    if not isinstance(node, ast.arg):
        return "kind", type(node).__name__, "arg"
    if node.arg != exp["name"]:
        return "name", node.arg, exp["name"]
    if _dump(node.annotation) not in exp["anns"]:
        return "annotation", ast.unparse(node.annotation) if node.annotation is not None else None, exp["ann_src"]
    if _dump(default) not in exp["defaults"]:
        return "default", _dump(default), exp["defaults"]
    return None, None, None


class _Mask(ast.NodeTransformer):
    """Blank every default value (they are compared by name in the default-map clause) - list lengths stay."""

    def visit_arguments(self, node):
        self.generic_visit(node)
        node.defaults = [ast.Constant(value="<default>") for _ in node.defaults]
        node.kw_defaults = [None if d is None else ast.Constant(value="<default>") for d in node.kw_defaults]
        return node


def _masked(tree, outs):
    tree = copy.deepcopy(tree)
    for out in outs:
        try:
            if out["kind"] == "attr":
                tree.body[out["at"][0]].body[out["at"][1]] = ast.Expr(value=ast.Constant(value="<selected>"))
            else:
                getattr(_fn_at(tree, out["at"]).args, out["list"])[out["idx"]] = ast.arg(arg="<selected>")
        except (IndexError, AttributeError):
            pass
    return _Mask().visit(tree)


def _strip_module_doc(tree):
    tree = copy.deepcopy(tree)
    b = tree.body
    if b and isinstance(b[0], ast.Expr) and isinstance(b[0].value, ast.Constant) and isinstance(b[0].value.value, str):
        tree.body = b[1:]
    return tree


def _diff_area(a, b):
    i = 0
    while i < min(len(a), len(b)) and a[i] == b[i]:
        i += 1
    ctx = a[max(0, i - 160):i + 40]
    best, where = "other", -1
    for key in ("defaults=", "kw_defaults=", "vararg=", "kwarg=", "kwonlyargs=", "args=", "decorator_list=", "bases=",
                "returns=", "body=", "annotation=", "value="):
        k = ctx.rfind(key)
        if k > where:
            best, where = key.rstrip("="), k
    return best, "...%s  !=  ...%s" % (a[max(0, i - 60):i + 80], b[max(0, i - 60):i + 80])


def _functions(tree):
    """{(position path): FunctionDef} for module-level functions and methods."""
    out = {}
    for bi, node in enumerate(tree.body):
        if isinstance(node, ast.FunctionDef):
            out[(bi,)] = node
        elif isinstance(node, ast.ClassDef):
            for ai, st_ in enumerate(node.body):
                if isinstance(st_, ast.FunctionDef):
                    out[(bi, ai)] = st_
    return out


def _default_map(fn):
    a = fn.args
    pos = a.posonlyargs + a.args
    m = {}
    shift = len(pos) - len(a.defaults)
    for i, arg in enumerate(pos):
        m[arg.arg] = _dump(a.defaults[i - shift]) if i >= shift else None
    for arg, d in zip(a.kwonlyargs, a.kw_defaults):
        m[arg.arg] = _dump(d)
    return m


def check_defaults(before_tree, after_tree, chosen, exps, flags):
    """D4, second half: parameter -> default is the same map except for the renamed keys."""
    v = []
    fb, fa = _functions(before_tree), _functions(after_tree)
    for key in sorted(fb):
        if key not in fa or fa[key].name != fb[key].name:
            continue        # reported by the structural comparison
        mb, ma = _default_map(fb[key]), _default_map(fa[key])
        here = [(inn, out, exp) for (inn, out), exp in zip(chosen, exps)
                if out["kind"] == "param" and tuple(out["at"]) == key]
        selected_before = set(out["name"] for _, out, _ in here)
        selected_after = set(exp["name"] for _, _, exp in here)
        a = fb[key].args
        off = 1 if len(key) == 2 and a.args and a.args[0].arg in ("self", "cls") else 0
        aligned = len(a.defaults) == len(a.args) - off
        for name in mb:
            if name in selected_before or name in selected_after:
                continue    # the selected parameter's own default is judged by D3
            if name in ma and ma[name] != mb[name]:
                same = [(inn, out) for inn, out, exp in here if inn["kind"] == "attr" and inn["name"] == out["name"]
                        and exp.get("in_value") is not None]
                v.append({"clause": "D4", "detail": "default of parameter %r of %s changed from %s to %s although "
                          "another parameter was selected (%s)" % (
                              name, fb[key].name, _short(mb[name]), _short(ma[name]),
                              ", ".join(o["path"] for _, o, _ in here) or "none of this function"),
                          "sig": {"what": "default_changed", "victim": "other", "same_name_value": bool(same),
                                  "all_defaulted": aligned,
                                  "new_is_input_value": any(exp.get("in_value") == ma[name] for _, _, exp in here),
                                  "input_shadowed": flags["input_shadowed"],
                                  "arg_in_class_body": flags["arg_in_class_body"]}})
                break
    return v


def _short(d):
    return "<none>" if d is None else d[:70]


def check_ok(cmd, chosen, in_tree, before_text, after_text, black, flags):
    """D2-D4 for a command that returned normally and in which no fault fired."""
    cells = [_cell(i, o) for i, o in chosen]
    try:
        after_tree = ast.parse(after_text)
    except SyntaxError as e:
        return [{"clause": "D2", "detail": "output file does not parse: %s; text: %r" % (e, after_text[:400]),
                 "sig": {"what": "unparsable", "cell": "+".join(sorted(set(cells))), "black": bool(black),
                         "input_shadowed": flags["input_shadowed"]},
                 "unparsable": True}]
    v = []
    before_tree = ast.parse(before_text)
    model = before_tree
    exps = [expectation(cmd, inn, out, in_tree, before_tree) for inn, out in chosen]
    for k, ((inn, out), exp) in enumerate(zip(chosen, exps)):
        part, got, want = check_location(exp, after_tree, out)
        if part is None:
            continue
        if part == "default":
            # the selected parameter's default was overwritten by *another* pair of this command (an attribute
            # with a value going into a same-named parameter of the same function): that is the default-map
            # clause seen from the other pair, so it is classified there
            culprit = [j for j, ((i2, o2), e2) in enumerate(zip(chosen, exps)) if j != k and o2["kind"] == "param"
                       and o2["at"] == out["at"] and i2["kind"] == "attr" and i2["name"] == o2["name"]
                       and e2.get("in_value") is not None and e2["in_value"] == got]
            if culprit:
                o2 = chosen[culprit[0]][1]
                v.append({"clause": "D4", "detail": "default of parameter %r of %s changed from %s to %s although "
                          "another parameter was selected (%s)" % (out["name"], out["fn"], _short(want[0]), _short(got),
                                                                   o2["path"]),
                          "sig": {"what": "default_changed", "victim": "other", "same_name_value": True,
                                  "all_defaulted": o2["n_defaults"] == o2["n_args"] - o2["off"],
                                  "new_is_input_value": True, "input_shadowed": flags["input_shadowed"],
                                  "arg_in_class_body": flags["arg_in_class_body"]}})
                continue
        v.append({"clause": "D3", "detail": "%s <- %s (%s): %s of the selected location is %r, expected %r" % (
            out["path"], inn["path"], exp["cell"], part, got, want),
            "sig": dict(flags, what="location_differs", cell=exp["cell"], part=part)})
    outs = [o for _, o in chosen]
    da, db = _dump(_masked(after_tree, outs)), _dump(_masked(model, outs))
    if da != db:
        only_doc = _dump(_strip_module_doc(_masked(after_tree, outs))) == _dump(_strip_module_doc(_masked(model, outs)))
        area, text = _diff_area(db, da)
        v.append({"clause": "D4", "detail": "something other than the selected location changed (%s): %s" % (
            "module docstring" if only_doc else area, text),
            "sig": {"what": "ast_changed", "only_module_docstring": only_doc,
                    "area": "module_docstring" if only_doc else area,
                    "stale_hazard": flags["stale_hazard"], "input_shadowed": flags["input_shadowed"],
                    "arg_in_class_body": flags["arg_in_class_body"]}})
    v += check_defaults(before_tree, after_tree, chosen, exps, flags)
    return v


def check_always(before, after, events):
    """D1 and D5 - asserted after every command, whatever its outcome."""
    v = []
    if before.get(IN_REL) != after.get(IN_REL):
        v.append({"clause": "D1", "detail": "input file changed: %s -> %s" % (before.get(IN_REL), after.get(IN_REL)),
                  "sig": {"what": "input_changed"}})
    for e in events:
        writing = e["kind"] in seams.MUTATING or e["kind"] in ("open_w", "open_raw_w")
        if not writing:
            continue
        if e.get("inside") and e["path"] == IN_REL:
            v.append({"clause": "D1", "detail": "input file was the subject of %s at %s" % (e["kind"], e.get("site")),
                      "sig": {"what": "input_opened_for_writing", "site": e.get("site")}})
            break
    created, modified, deleted = SimWorld.diff(before, after)
    others = [p for p in created + modified + deleted if p not in (IN_REL, OUT_REL)]
    if others or OUT_REL in deleted or OUT_REL in created:
        v.append({"clause": "D5", "detail": "paths other than the output file changed: created=%s modified=%s deleted=%s"
                  % (created, modified, deleted), "sig": {"what": "other_path_changed",
                                                         "how": "created" if created else "deleted" if deleted else "modified"}})
    for e in events:
        writing = e["kind"] in seams.MUTATING or e["kind"] in ("open_w", "open_raw_w")
        if writing and not e.get("inside") and "__pycache__" in str(e.get("path")):
            continue    # the import system caching a module that lives outside the project (refused by the seam anyway)
        if writing and not (e.get("inside") and e["path"] in (IN_REL, OUT_REL)):
            v.append({"clause": "D5", "detail": "%s on %r at %s" % (e["kind"], e["path"] if e.get("inside") else "<outside>",
                                                                    e.get("site")),
                      "sig": {"what": "seam_call_on_other_path", "site": e.get("site")}})
            break
    return v


# ------------------------------------------------------------------------------------ simulation
_warm = [False]


def warm_up():
    if _warm[0]:
        return
    proc.import_all()
    w = SimWorld(tag="warm")
    try:
        w.write_files({IN_REL: "class A(object):\n    a: int = 1\n", OUT_REL: "class B(object):\n    b: str = 's'\n"})
        op = {"cmd": "cli", "argv": ["sync_properties", "--input-filename", "{ROOT}/" + IN_REL, "--output-filename",
                                     "{ROOT}/" + OUT_REL, "--input-param", "A.a", "--output-param", "B.b"]}
        ops.invoke(w, op)
        ops.invoke(w, op, black=False)
    finally:
        w.destroy()
    _warm[0] = True


def _resolve_fault(f, io_events):
    """Concretise a drawn fault against the rehearsal's seam calls (same scheme as C20)."""
    if f is None or not io_events:
        return None
    if "at" in f:
        at = f["at"]
        ev = next((e for e in io_events if e["io"] == at), None)
        if ev is None:
            return None
    else:
        cands = [e for e in io_events if e["kind"] in seams.MUTATING] if f.get("target") == "mut" else io_events
        if not cands:
            cands = io_events
        ev = cands[min(int(f["frac"] * len(cands)), len(cands) - 1)]
        at = ev["io"]
    out = {"seam": "io", "at": at, "kind": f["kind"]}
    if f["kind"] == "err":
        errs = seams.ERRNOS_FOR.get(ev["kind"], ("EIO",))
        out["errno"] = f.get("errno") or errs[f.get("errno_i", 0) % len(errs)]
        if ev["kind"] == "close_w":
            out["keep"] = f.get("keep", 0.0)
    return out


def _bump(d, k, n=1):
    d[k] = d.get(k, 0) + n


def _count_fired(o, stats):
    for fr in o.fired:
        _bump(stats["faults_fired"], "%s@%s" % (fr["kind"] if fr["kind"] == "crash" else fr.get("errno", "err"), fr["event"]))
        stats["fault_sites"].append("%s:%s" % (fr["event"], fr.get("site")))
        _bump(stats["probes"], "fault_fired")
        if fr["kind"] == "crash":
            _bump(stats["probes"], "crash_fired")
    for e in o.events:
        if e.get("kept"):
            _bump(stats["probes"], "torn_close")


def _flags(cmd, chosen, in_tree, out_tree):
    """Machine-computed region flags that go into D2/D3/D4 signatures.  They are taken over all pairs of the
    command: pairs interact (a node written by one pair can swallow its neighbour when the text is re-parsed)."""
    def reused(inn):
        return bool(cmd.get("wrap")) and inn["kind"] != "const" and bool(inn.get("annotated")) and \
            sum(1 for i2, _ in chosen if i2["path"] == inn["path"]) > 1
    return {"input_shadowed": any(input_hazard(in_tree, inn) for inn, _ in chosen),
            "input_reused_with_wrap": any(reused(inn) for inn, _ in chosen),
            "stale_hazard": any(stale_hazard(chosen[:j], chosen[j][1], out_tree) for j in range(len(chosen))),
            "arg_in_class_body": any(_cell(inn, o) == "attr_from_param" for inn, o in chosen)}


def _attribute_unparsable(world, cmd, chosen, cp, black):
    """Which pairs, run alone from the same state, leave an unparsable file: the cells named in a D2 signature."""
    bad = []
    for inn, out in chosen:
        world.restore(cp)
        o = ops.invoke(world, {"cmd": "cli", "argv": argv_of(cmd, [(inn, out)])}, black=black)
        if o.ok:
            try:
                ast.parse(world.read(OUT_REL) or "")
            except SyntaxError:
                bad.append(_cell(inn, out))
    return "+".join(sorted(set(bad))) if bad else "combination"


def simulate(plan, enumerate_all=None):
    warm_up()
    res = SimResult()
    res.plan_digest = digest_of(plan)
    stats = {"commands": 0, "evaluations": 0, "outcomes": {}, "faults_fired": {}, "fault_sites": [], "probes": {},
             "world_states": [], "extra": {"cells": {}}}
    res.stats = stats
    probe = stats["probes"]
    black = bool(plan.get("black", True))
    avoid = tuple(plan.get("avoid", ()))
    in_text, out_text = render_module(plan["inp"]), render_module(plan["out"])
    try:
        in_tree = ast.parse(in_text)
        ast.parse(out_text)
    except SyntaxError as e:   # generator defect, never a finding
        raise AssertionError("generator produced invalid Python: %s\n%s\n%s" % (e, in_text, out_text))
    files = {IN_REL: in_text, OUT_REL: out_text, NOTES_REL: "unrelated file next to the two modules\n"}
    world = SimWorld(tag="c13")
    world.write_files(files)
    history = []
    concrete = dict(plan, cmds=[], all_pairs=False)
    completed = 0
    try:
        if plan.get("all_pairs") and not hyp.SHRINKING[0]:
            res.violations += _all_pairs(world, plan, in_tree, out_text, black, stats, files)
        in_spec = plan["inp"]
        for ci, cmd in enumerate(plan["cmds"]):
            if ci and cmd.get("edit_input") and in_spec.get("consts"):
                in_spec = edited_input(in_spec)
                new_text = render_module(in_spec)
                if len(new_text.encode("utf-8")) == len(in_text.encode("utf-8")) and new_text != in_text:
                    st_ = os.stat(world.p(IN_REL))
                    world.write_files({IN_REL: new_text})
                    os.utime(world.p(IN_REL), ns=(st_.st_atime_ns, st_.st_mtime_ns))
                    in_text, in_tree = new_text, ast.parse(new_text)
                    _bump(probe, "input_edited_same_size_same_second")
            before_text = world.read(OUT_REL)
            out_tree = ast.parse(before_text)       # kept parseable by the recovery step below
            chosen = resolve_pairs(cmd, in_tree, out_tree, avoid)
            if not chosen:
                _bump(stats, "commands_without_valid_pair")
                continue
            op = {"cmd": "cli", "argv": argv_of(cmd, chosen)}
            flags = _flags(cmd, chosen, in_tree, out_tree)
            cp = world.checkpoint()
            last = ci == len(plan["cmds"]) - 1
            do_enum = (bool(plan.get("enum")) if enumerate_all is None else bool(enumerate_all)) and last \
                and not hyp.SHRINKING[0]
            fault = None
            if cmd.get("fault") or do_enum:
                reh = ops.invoke(world, op, black=black, bytecode=bool(cmd.get("eval")))
                stats["evaluations"] += 1
                world.restore(cp)
                fault = _resolve_fault(cmd.get("fault"), reh.io_events())
                if do_enum:
                    for x in _enumerate(world, op, cp, reh.io_events(), black, stats):
                        p2 = dict(concrete, enum=False)
                        p2["cmds"] = [dict(c) for c in concrete["cmds"]] + [
                            dict(_concrete_cmd(cmd, chosen), fault=x.pop("enum_fault"))]
                        x["final"] = True
                        x["detail"] = "cmd %d %s: %s" % (ci, " ".join(op["argv"]), x["detail"])
                        x["trace"] = {"kind": "c13-plan", "plan": p2, "files": files}
                        res.violations.append(x)
                    world.restore(cp)
            before = world.snapshot(with_mtime=True)
            o = ops.invoke(world, op, faults=[fault] if fault else None, black=black, bytecode=bool(cmd.get("eval")))
            after = world.snapshot(with_mtime=True)
            stats["commands"] += 1
            stats["evaluations"] += 1
            _bump(stats["outcomes"], "sync_properties:" + o.kind)
            _count_fired(o, stats)
            if not black:
                _bump(probe, "black_absent")
            viols = check_always(before, after, o.events)
            after_text = world.read(OUT_REL)
            recover = not o.ok
            if o.ok and not o.fired:
                completed += 1
                vs = check_ok(cmd, chosen, in_tree, before_text, after_text or "", black, flags)
                for x in vs:
                    if x.pop("unparsable", False):
                        recover = True
                        if len(chosen) > 1:
                            x["sig"]["cell"] = _attribute_unparsable(world, cmd, chosen, cp, black)
                            stats["evaluations"] += len(chosen)
                viols += vs
                _probe_ok(probe, stats, cmd, chosen, ci, history)
            elif o.kind == "raised" and not o.fired:
                _bump(probe, "raised_without_fault")
                # a command that fails by itself (no fault injected: black rejecting the rendering, an unsupported
                # pair, ...) must not have touched the output: "nothing else in the output file changes"
                if after_text != before_text:
                    viols.append({"clause": "D4", "detail": "the command raised %s by itself but the output file changed: "
                                                            "%d -> %d characters" % (o.exc_type, len(before_text or ""),
                                                                                     len(after_text or "")),
                                  "sig": {"what": "output_changed_by_failed_command", "exc": o.exc_type,
                                          "emptied": not after_text}})
                for c in sorted(set(_cell(i, t) for i, t in chosen)):
                    _bump(stats["extra"]["cells"], "%s:raised:%s" % (c, o.exc_type))
            if recover:
                # the user notices the failure and puts the last good copy back
                world.restore(cp)
                _bump(probe, "user_recovery")
            for x in viols:
                x["detail"] = "cmd %d %s [black %s]: %s" % (ci, " ".join(op["argv"]), "present" if black else "absent",
                                                            x["detail"])
            res.violations += viols
            ccmd = _concrete_cmd(cmd, chosen)
            if fault:
                ccmd["fault"] = dict(fault)
            concrete["cmds"].append(ccmd)
            wd = SimWorld.digest(after)
            stats["world_states"].append(wd)
            history.append({"argv": op["argv"], "outcome": _brief(o, world),
                            "events": [(e["kind"], e["path"] if e.get("inside") else "<outside>") for e in o.events if "io" in e],
                            "world": wd, "ok": o.ok and not o.fired})
    finally:
        world.destroy()
    concrete["enum"] = bool(plan.get("enum")) if enumerate_all is None else bool(enumerate_all)
    res.trace = {"kind": "c13-plan", "plan": concrete, "files": files,
                 "history": [{"argv": h["argv"], "outcome": h["outcome"]} for h in history]}
    res.digest = digest_of([(h["argv"], h["outcome"].get("kind"), h["outcome"].get("exc"), h["events"], h["world"])
                            for h in history])
    res.nontrivial = completed > 0 and any(probe.values())
    res.sample = {"input": in_text[:1200], "output": out_text[:1200], "black": black,
                  "history": [{"argv": h["argv"], "outcome": h["outcome"], "seam_calls": len(h["events"])} for h in history]}
    return res


def _brief(o, world):
    d = o.brief()
    if "msg" in d:
        d["msg"] = d["msg"].replace(world.root, "{ROOT}")
    for fr in d.get("fired", ()):
        if isinstance(fr.get("path"), str):
            fr["path"] = fr["path"].replace(world.root, "{ROOT}")
    return d


def _concrete_cmd(cmd, chosen):
    return {"pairs": [{"in": i["path"], "out": o["path"]} for i, o in chosen], "wrap": cmd.get("wrap"),
            "eval": bool(cmd.get("eval")), "fault": None, "rough": True, "edit_input": bool(cmd.get("edit_input"))}


def _probe_ok(probe, stats, cmd, chosen, ci, history):
    if len(chosen) > 1:
        _bump(probe, "two_pairs")
    if cmd.get("eval"):
        _bump(probe, "input_eval")
    if cmd.get("wrap"):
        _bump(probe, "wrap_template")
    if any(h["ok"] for h in history):
        _bump(probe, "second_command_same_file")
    for inn, out in chosen:
        cell = _cell(inn, out)
        _bump(stats["extra"]["cells"], cell + ":returned")
        if not cell.endswith("_eval"):
            _bump(probe, cell)
        if inn["kind"] != "const" and inn["name"] == out["name"]:
            _bump(probe, "same_name_pair")
        if out["kind"] != "param":
            continue
        if out["list"] == "kwonlyargs":
            _bump(probe, "kwonly_target")
            continue
        if out["off"]:
            _bump(probe, "self_offset_target")
        pos, n = out["idx"] - out["off"], out["n_args"] - out["off"]
        _bump(probe, "first_position_target" if pos == 0 else "last_position_target" if pos == n - 1
              else "middle_position_target")
        has_default = out["idx"] >= out["n_args"] - out["n_defaults"]
        _bump(probe, "target_with_default" if has_default else "target_without_default")


def _all_pairs(world, plan, in_tree, out_text, black, stats, files):
    """Every valid (input path, output path) of the two initial files as a one-pair command of its own
    (plus --input-eval of the first constant into every output location; a wrap template on every third)."""
    viols = []
    out_tree = ast.parse(out_text)
    in_locs, consts, out_locs = read_locations(in_tree), read_consts(in_tree), read_locations(out_tree)
    cp = world.checkpoint()
    k = 0
    for out in out_locs:
        cands = [l for l in in_locs if (l["name"] == out["name"] or l["name"] not in out["scope"])
                 and (out["kind"] != "attr" or l["annotated"])] + consts[:1]
        for inn in cands:
            k += 1
            cmd = {"pairs": [{"in": inn["path"], "out": out["path"]}], "wrap": WRAPS[k % len(WRAPS)] if k % 3 == 0 else None,
                   "eval": inn["kind"] == "const", "fault": None, "rough": True}
            chosen = [(inn, out)]
            op = {"cmd": "cli", "argv": argv_of(cmd, chosen)}
            before = world.snapshot(with_mtime=True)
            o = ops.invoke(world, op, black=black)
            after = world.snapshot(with_mtime=True)
            stats["evaluations"] += 1
            _bump(stats, "all_pairs_commands")
            _bump(stats["outcomes"], "all_pairs:" + o.kind)
            vs = check_always(before, after, o.events)
            if o.ok:
                vs += check_ok(cmd, chosen, in_tree, out_text, world.read(OUT_REL) or "", black,
                               _flags(cmd, chosen, in_tree, out_tree))
                _bump(stats["extra"]["cells"], _cell(inn, out) + ":returned(all-pairs)")
            for x in vs:
                x.pop("unparsable", None)
                x["detail"] = "all-pairs sweep, %s [black %s]: %s" % (" ".join(op["argv"]), "present" if black else "absent",
                                                                      x["detail"])
                x["final"] = True
                x["trace"] = {"kind": "c13-plan", "files": files,
                              "plan": dict(plan, cmds=[cmd], enum=False, all_pairs=False)}
            viols += vs
            world.restore(cp)
    return viols


def _enumerate(world, op, cp, reh_events, black, stats):
    """Every seam call of this command faulted once per kind (error, crash; torn close for close_w)."""
    viols = []
    targets = []
    for e in reh_events:
        targets.append((e, "err"))
        targets.append((e, "crash"))
        if e["kind"] == "close_w" and e.get("nbytes", 0) > 1:
            targets.append((e, "tear"))
    for e, kind in targets:
        world.restore(cp)
        f = {"seam": "io", "at": e["io"], "kind": "crash" if kind == "crash" else "err"}
        if kind != "crash":
            f["errno"] = seams.ERRNOS_FOR.get(e["kind"], ("EIO",))[0]
            if e["kind"] == "close_w":
                f["keep"] = 0.5 if kind == "tear" else 0.0
        before = world.snapshot(with_mtime=True)
        o = ops.invoke(world, op, faults=[f], black=black)
        after = world.snapshot(with_mtime=True)
        stats["evaluations"] += 1
        _bump(stats, "enumerated_faults")
        _count_fired(o, stats)
        if not o.fired:
            _bump(stats, "enumerated_not_fired")
        _bump(stats["outcomes"], "enum:" + o.kind)
        for x in check_always(before, after, o.events):
            x["detail"] = "enumerated fault %s at seam call %d (%s %s): %s" % (kind, e["io"], e["kind"], e["path"], x["detail"])
            x["sig"] = dict(x["sig"], enumerated=True)
            x["enum_fault"] = f
            viols.append(x)
    return viols


# ------------------------------------------------------------------------------ runner interface
def _avoid(known):
    open_ids = [e["id"] for e in known if e.get("status") == "open"]
    return [a for a in AVOIDABLE if any(i == a or i.startswith(a) for i in open_ids)]


def plan(tier, seed, scale=1.0):
    per = int({"quick": 700, "thorough": 8000}[tier] * scale)
    return [{"seed": seed * 1000 + w, "n": per, "tier": tier} for w in range(16)]


def work(task):
    known = load_known(ID)
    quick = task["tier"] == "quick"
    strat = plans(avoid=_avoid(known), enum_every=4 if quick else 3, all_pairs_every=80 if quick else 12)
    return explore(strat, simulate, task["seed"], task["n"], known, batch=50 if quick else 100,
                   max_shrink_runs=300, max_shrink_s=45.0)


def replay(trace):
    return simulate(trace["plan"]).violations
