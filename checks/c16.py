"""C16 — the generated OpenAPI document is closed and matches the requested CRUD.

Routes machine (DESIGN.md §3 C16): `models.py` (1..3 SQLAlchemy declarative classes rendered by this
module, never by a cdd emitter) and initially absent routes files in a SimWorld; a history of 1..6
`gen_routes` CLI commands through `cdd.__main__.main` (which wires gen_routes + upsert_routes);
after every command `openapi_bulk` is called and clauses E1..E7 are evaluated against the reference
model R = union of every (model, operation, route, app) requested so far.  I/O errors (torn close
with a kept prefix) and crashes are injected at the write/append of the routes file, followed by the
user's recovery (the routes file is put back from the last good state) before the history goes on.
"""
import ast
import os
import json
import re

from hypothesis import strategies as st

from cddsim import ops, proc, seams
from cddsim.hyp import SimResult, digest_of, explore
from cddsim.runner import load_known
from cddsim.world import SimWorld

ID = "C16"
LEVEL = "exploration"
RULE = ("Hypothesis-drawn models.py (1..3 declarative classes: single-word, Title_Snake and CamelCase multi-word names; "
        "table name plain or with _tbl; explicit primary key at any position or none (inferred); 1..6 columns of "
        "String/Integer/Float/Boolean/JSON/Enum with comment, default, nullable) x histories of 1..6 `gen_routes` CLI "
        "commands (crud in C,R,D,CR,CD,CRD, rarely the refused RD/U forms; default or explicit --route prefix, rarely one "
        "with a path parameter; default or second --app-name; first or second routes file, both passed to openapi_bulk "
        "in a fixed order; in-process restart) run "
        "through cdd.__main__.main under the open/audit seams. After every command that changed or may have changed "
        "the state, cdd.compound.openapi.gen_openapi.openapi_bulk is called for every app requested so far and E1..E7 "
        "are judged against the union of the requests. ~30% of histories carry one fault (I/O error with kept prefix "
        "or crash, placed by rehearsal on the write/append of the routes file, sometimes on any seam call), followed "
        "by recovery of the routes file. Non-trivial = at least one command completed, one document was produced and "
        "a reach probe fired; distinct = distinct outcome digest (argv, outcomes, seam log, world and document "
        "digests).")
ASSUMPTIONS = [
    "every routes file is written only by the tool (no user edits); after a failed command the user restores the "
    "routes file from the last good state, so the model R is never advanced by a failed command",
    "faults are one-shot; process-crash semantics (closed files persist, open buffers are lost); no power loss",
    "E5 compares the POST/GET/DELETE operations of the document with R; the item path is `<route>/{pk}` where pk is "
    "the explicit primary-key column, and for a model without one any single column of the model is accepted",
    "a request the CLI or the generator refuses (RD is not an argparse choice, U has no template) is not a violation "
    "and does not advance R; whatever a failed command left in the routes file is undone by the same recovery",
    "an operation that already lives in one routes file is never requested into the other one (the same method on "
    "the same path twice has no defined meaning): such a command is directed to the file that holds the operation",
    "models.py stays in the shape the tool can read: no two classes on one table, Enum columns with two values "
    "(three or more make openapi_bulk raise, which is not judged), at most one column without comment= per model "
    "and only in 1 of 16 models (gen_routes raises KeyError('doc') on those, which is not judged either)",
    "openapi_bulk raising is not judged (the statement is about the document produced); the probe `openapi_ok` "
    "guards against vacuity",
    "E7 looks a model's schema up under its class name and, failing that, under the key the tool derives from the "
    "table name, so that the key mismatch (F-C16-2) is reported once, by E2",
    "the sig fields `cause` (E5) and `all_glued` (E6) are explanations computed from the routes files' AST; they "
    "only label a violation, they never create or remove one",
]
REAL = ["cdd (all modules, from the working tree)", "cdd.__main__.main argv parsing and gen_routes/upsert_routes wiring",
        "cdd.compound.openapi.gen_openapi.openapi_bulk", "CPython ast", "PyYAML",
        "the tmpfs file system for everything that persists"]
STUBBED = ["durability of write-mode file objects (SimFile: buffered until close, fault decides the kept prefix)",
           "OS error returns (synthetic OSError with real errno)", "process crash (SimCrash at a seam call)",
           "the user (seeded histories; recovery = restore of the routes file)"]

METHODS = ("patch", "post", "put", "get", "delete", "trace")
OP_METHOD = {"C": "post", "R": "get", "D": "delete"}
ROUTE_FILES = ("routes.py", "routes_b.py")
APPS = ("rest_api", "api")
SINGLE = ("Config", "Settings", "Record", "Model", "Loader", "Conf", "Load")   # Conf/Config, Load/Loader: one route is a
#                                                                                string prefix of the other
TITLE_SNAKE = ("Audit_Log", "Job_Queue")
CAMEL = ("UserProfile", "DataSet", "AuditLogEntry")
COL_NAMES = ("name", "size", "label", "enabled", "ratio", "owner_id", "created_by", "kind", "dataset_name", "notes",
             "K", "max_depth")
COL_TYPES = ("String", "Integer", "Boolean", "Float", "JSON", 'Enum("np", "tf", name="backend")')
COL_DEFAULTS = {"String": ('"mnist"', '"a b"'), "Integer": ("5", "0"), "Boolean": ("True", "False"),
                "Float": ("0.5",), "JSON": (), 'Enum("np", "tf", name="backend")': ('"np"',)}
COL_DOCS = ("name of the thing", "how big it is", "shown to the user", "whether it is on", "a ratio", "who owns it",
            "kept for later", "the kind")
CRUDS = ("C", "R", "D", "CR", "CD", "CRD")
REFUSED_CRUDS = ("RD", "U", "CU", "CRUD")


def probes():
    return ["openapi_ok", "upsert_appended_to_existing_routes_file", "two_models_interleaved", "multiword_model",
            "fault_fired_on_append", "fault_fired_on_first_write", "recovered_after_fault", "inferred_pk_model",
            "noop_upsert", "second_routes_file", "second_app", "crash_fired", "refused_request", "explicit_route", "user_renamed_model_same_size_same_second"]


# ------------------------------------------------------------------------------------ generators
@st.composite
def column(draw, name):
    typ = draw(st.sampled_from(COL_TYPES[:4] + COL_TYPES))
    col = {"name": name, "typ": typ, "doc": draw(st.sampled_from(COL_DOCS)), "default": None, "nullable": None}
    if COL_DEFAULTS[typ] and draw(st.integers(0, 2)) == 2:
        col["default"] = draw(st.sampled_from(COL_DEFAULTS[typ]))
    col["nullable"] = draw(st.sampled_from((None, None, True, False)))
    return col


def _snake(name):
    return re.sub(r"(?<=[a-z0-9])(?=[A-Z])", "_", name).lower()


@st.composite
def model(draw, used):
    kind = draw(st.sampled_from((0, 0, 0, 0, 0, 1, 2, 2)))   # 0 single word, 1 Title_Snake, 2 CamelCase
    pool = (SINGLE, TITLE_SNAKE, CAMEL)[kind]
    free = [n for n in pool if _snake(n) not in used] or [n for n in SINGLE + TITLE_SNAKE + CAMEL if _snake(n) not in used]
    name = draw(st.sampled_from(free))
    snake = _snake(name)
    used.add(snake)   # two classes never share a table
    table = snake + ("_tbl" if draw(st.integers(0, 2)) != 2 else "")
    n = draw(st.integers(1, 6))
    names = draw(st.lists(st.sampled_from(COL_NAMES), min_size=n, max_size=n, unique=True))
    cols = [draw(column(cn)) for cn in names]
    pk = draw(st.sampled_from((0, 0, 0, None, None, n - 1)))
    if draw(st.integers(0, 15)) == 15:
        # a Column without comment= (gen_routes looks the "[PK]" marker up in every column's doc)
        cols[draw(st.integers(0, n - 1))]["doc"] = None
    if pk is not None:
        cols[pk]["nullable"] = None
    return {"name": name, "table": table, "cols": cols, "pk": pk,
            "doc": draw(st.sampled_from((None, "Settings of a thing", "One stored record.")))}


@st.composite
def command(draw, n_models):
    cmd = {"model": draw(st.integers(0, n_models - 1)), "crud": draw(st.sampled_from(CRUDS)),
           "route": 0, "app": 0, "file": 0, "fault": None, "restart": False}
    if draw(st.integers(0, 3)) == 3:
        cmd["route"] = draw(st.sampled_from((1, 1, 2, 2, 3)))
    if draw(st.integers(0, 7)) == 7:
        cmd["app"] = 1
    if draw(st.integers(0, 5)) == 5:
        cmd["file"] = 1
    if draw(st.integers(0, 15)) == 15:
        cmd["crud"] = draw(st.sampled_from(REFUSED_CRUDS))
    if draw(st.integers(0, 63)) == 63:
        cmd["restart"] = True
    return cmd


@st.composite
def fault_spec(draw):
    return {"frac": draw(st.floats(0, 0.999)), "kind": draw(st.sampled_from(("err", "err", "crash"))),
            "target": draw(st.sampled_from(("mut", "mut", "mut", "any"))),
            "errno_i": draw(st.integers(0, 2)), "keep": draw(st.sampled_from((0.0, 0.5, 0.9, 0.99)))}


@st.composite
def plans(draw):
    used = set()
    models = [draw(model(used)) for _ in range(draw(st.integers(1, 3)))]
    cmds = draw(st.lists(command(len(models)), min_size=1, max_size=6))
    if draw(st.integers(0, 9)) >= 7:
        i = draw(st.integers(0, len(cmds) - 1))
        cmds[i]["fault"] = draw(fault_spec())
    return {"models": models, "cmds": cmds, "rename": draw(st.integers(0, 4)) == 4}


# -------------------------------------------------------------------------------------- renderer
def render_models(models):
    """models.py text.  Written by hand here: the input must not depend on any cdd emitter."""
    lines = ["from sqlalchemy import JSON, Boolean, Column, Enum, Float, Integer, String",
             "from sqlalchemy.orm import declarative_base", "", "Base = declarative_base()", ""]
    for m in models:
        lines += ["", "class %s(Base):" % m["name"]]
        if m.get("doc"):
            lines += ['    """%s"""' % m["doc"], ""]
        lines += ['    __tablename__ = "%s"' % m["table"], ""]
        for i, c in enumerate(m["cols"]):
            args = [c["typ"]]
            if c.get("doc"):
                args.append('comment="%s"' % c["doc"])
            if c.get("default") is not None:
                args.append("default=%s" % c["default"])
            if m["pk"] == i:
                args.append("primary_key=True")
            elif c.get("nullable") is not None:
                args.append("nullable=%s" % c["nullable"])
            lines.append("    %s = Column(%s)" % (c["name"], ", ".join(args)))
        lines.append("")
    return "\n".join(lines)


def route_of(m, style):
    lower = m["name"].lower()
    return {0: "/api/" + lower, 1: "/api/v1/" + lower, 2: "/" + lower + "s", 3: "/api/:tenant/" + lower}[style]


def argv_of(plan, cmd):
    m = plan["models"][cmd["model"] % len(plan["models"])]
    argv = ["gen_routes", "--crud", cmd["crud"], "--model-path", "{ROOT}/models.py", "--model-name", m["name"],
            "--routes-path", "{ROOT}/" + ROUTE_FILES[cmd["file"]]]
    if cmd["route"]:
        argv += ["--route", route_of(m, cmd["route"])]
    if cmd["app"]:
        argv += ["--app-name", APPS[cmd["app"]]]
    return argv


def derived_key(m):
    """The component key the tool derives from the table name (gen_openapi.openapi_bulk)."""
    return m["table"].replace("_tbl", "", 1).title()


# ---------------------------------------------------------------------------------------- oracle
def _route_call(node):
    """(app, method, path) when node is `<name>.<http method>('<path>', ...)`."""
    if isinstance(node, ast.Call) and isinstance(node.func, ast.Attribute) and node.func.attr in METHODS \
            and isinstance(node.func.value, ast.Name) and node.args and isinstance(node.args[0], ast.Constant) \
            and isinstance(node.args[0].value, str):
        return node.func.value.id, node.func.attr, node.args[0].value
    return None


def analyse_routes(text):
    """Independent reading of a routes file: top-level functions with their route decorator, and every
    `<expr> @ app.method('/path')` matrix-multiplication (a decorator glued onto the preceding statement)."""
    try:
        mod = ast.parse(text)
    except (SyntaxError, ValueError) as e:
        return {"error": "%s: %s" % (type(e).__name__, e), "funcs": [], "glued": []}
    funcs = []
    for node in mod.body:
        if isinstance(node, (ast.FunctionDef, ast.AsyncFunctionDef)):
            deco = None
            for d in node.decorator_list:
                deco = _route_call(d)
                if deco:
                    break
            doc = ast.get_docstring(node, clean=False) or ""
            funcs.append({"name": node.name, "lineno": node.lineno, "deco": deco,
                          "template": node.name in ("create", "read", "destroy") and "```yml" in doc})
    glued = []
    for node in ast.walk(mod):
        if isinstance(node, ast.BinOp) and isinstance(node.op, ast.MatMult):
            rc = _route_call(node.right)
            if rc:
                glued.append({"call": rc, "end_lineno": node.right.end_lineno})
    glued.sort(key=lambda g: g["end_lineno"])
    ends = set(g["end_lineno"] for g in glued)
    for f in funcs:
        f["glue_explained"] = f["deco"] is None and (f["lineno"] - 1) in ends
    return {"error": None, "funcs": funcs, "glued": glued}


def check_routes_files(analyses):
    """E6 — every route function carries its decorator."""
    v = []
    for rel in sorted(analyses):
        a = analyses[rel]
        if a["error"]:
            v.append({"clause": "E6", "detail": "%s does not parse: %s" % (rel, a["error"]),
                      "sig": {"what": "unparsable_routes_file"}})
            continue
        bare = [f for f in a["funcs"] if f["template"] and f["deco"] is None]
        if bare or a["glued"]:
            all_glued = bool(a["glued"]) and all(f["glue_explained"] for f in bare)
            first = a["glued"][0]["call"] if a["glued"] else None
            v.append({"clause": "E6", "detail": "%s: %d route function(s) without decorator (%s); %d decorator(s) glued "
                      "onto the preceding statement as `<expr> @ %s`" % (
                          rel, len(bare), ", ".join("%s@line %d" % (f["name"], f["lineno"]) for f in bare[:4]),
                          len(a["glued"]), "%s.%s(%r)" % first if first else "-"),
                      "sig": {"what": "route_decorator_detached", "all_glued": all_glued}})
    return v


def visible_sequence(analyses, files, app):
    """What openapi_bulk's route enumeration can see, mirrored from the files' AST: per file the top-level
    functions up to the first one without a route decorator, restricted to the app; and which of them sit in a
    group of their path that is not the last such group (itertools.groupby without sorting keeps the last)."""
    seq = []
    for rel in files:
        for i, f in enumerate(analyses[rel]["funcs"]):
            if f["deco"] is None:
                break
            if f["deco"][0] == app:
                seq.append((f["deco"][2], f["deco"][1], rel, i))
    groups = []
    for item in seq:
        if groups and groups[-1][0] == item[0]:
            groups[-1][1].append(item)
        else:
            groups.append((item[0], [item]))
    last_group = {}
    for gi, (p, _) in enumerate(groups):
        last_group[p] = gi
    shadowed = set()
    for gi, (p, items) in enumerate(groups):
        if last_group[p] != gi:
            for it in items:
                shadowed.add((it[1], it[0]))
    return shadowed


def explain_missing(analyses, files, app, method, bottle_path, shadowed):
    for rel in files:
        a = analyses[rel]
        if any(g["call"] == (app, method, bottle_path) for g in a["glued"]):
            return "glued_decorator"
    for rel in files:
        funcs = analyses[rel]["funcs"]
        for i, f in enumerate(funcs):
            if f["deco"] == (app, method, bottle_path):
                earlier_bare = [g for g in funcs[:i] if g["deco"] is None]
                if earlier_bare:
                    return "glued_decorator" if all(g["glue_explained"] for g in earlier_bare) else "unexplained"
    if (method, bottle_path) in shadowed:
        return "nonadjacent_path_group"
    return "unexplained"


def _walk_refs(obj, where, out):
    if isinstance(obj, dict):
        for k in obj:
            if k == "$ref" and isinstance(obj[k], str):
                out.append((where, obj[k]))
            else:
                _walk_refs(obj[k], where + "/" + str(k), out)
    elif isinstance(obj, (list, tuple)):
        for i, x in enumerate(obj):
            _walk_refs(x, where + "/" + str(i), out)


def _resolves(doc, ref):
    if not ref.startswith("#/"):
        return False
    cur = doc
    for part in ref[2:].split("/"):
        part = part.replace("~1", "/").replace("~0", "~")
        if isinstance(cur, dict) and part in cur:
            cur = cur[part]
        else:
            return False
    return True


def to_openapi_path(bottle_path):
    return "/".join("{%s}" % seg[1:] if seg.startswith(":") else seg for seg in bottle_path.split("/"))


def check_document(doc, models, wanted, app, analyses, files):
    """E1..E5, E7 on one document.  wanted: set of (model name, op, route) requested for this app."""
    v = []
    by_name = dict((m["name"], m) for m in models)
    # E1
    try:
        json.dumps(doc, allow_nan=False)
    except (TypeError, ValueError, RecursionError) as e:
        v.append({"clause": "E1", "detail": "document is not JSON-serialisable: %s: %s" % (type(e).__name__, e),
                  "sig": {"what": "not_json"}})
        return v
    if not isinstance(doc, dict):
        v.append({"clause": "E1", "detail": "document is %s, not an object" % type(doc).__name__, "sig": {"what": "not_object"}})
        return v
    components = doc.get("components") or {}
    schemas = components.get("schemas") or {}
    bodies = components.get("requestBodies") or {}
    paths = doc.get("paths") or {}
    # E2 / E3
    refs = []
    _walk_refs(doc, "#", refs)
    bad_schema_refs, bad_body_refs = [], []
    for where, ref in refs:
        if _resolves(doc, ref):
            continue
        (bad_body_refs if ref.startswith("#/components/requestBodies/") else bad_schema_refs).append((where, ref))
    if bad_schema_refs:
        def mismatch_only(ref):
            pre = "#/components/schemas/"
            m = by_name.get(ref[len(pre):]) if ref.startswith(pre) else None
            return m is not None and derived_key(m) != m["name"] and derived_key(m) in schemas
        tcm = all(mismatch_only(ref) for _, ref in bad_schema_refs)
        names = sorted(set(ref for _, ref in bad_schema_refs))
        v.append({"clause": "E2", "detail": "%d $ref(s) do not resolve inside the document: %s (first at %s); schema keys "
                  "present: %s" % (len(bad_schema_refs), names[:4], bad_schema_refs[0][0], sorted(schemas)[:8]),
                  "sig": {"what": "unresolved_ref", "title_case_mismatch": tcm}})
    if bad_body_refs:
        v.append({"clause": "E3", "detail": "request bod(ies) referenced but not defined: %s (first at %s); defined: %s" % (
            sorted(set(r for _, r in bad_body_refs))[:4], bad_body_refs[0][0], sorted(bodies)[:8]),
            "sig": {"what": "undefined_request_body"}})
    for p in sorted(paths):
        item = paths[p] if isinstance(paths[p], dict) else {}
        for meth in sorted(item):
            rb = item[meth].get("requestBody") if isinstance(item[meth], dict) else None
            if isinstance(rb, dict) and "$ref" not in rb and "content" not in rb:
                v.append({"clause": "E3", "detail": "%s %s: requestBody neither references nor defines a body: %r" % (
                    meth, p, rb), "sig": {"what": "empty_request_body"}})
    # E4
    for p in sorted(paths):
        item = paths[p] if isinstance(paths[p], dict) else {}
        names = re.findall(r"\{([^{}/]*)\}", p) + [seg[1:] for seg in p.split("/") if seg.startswith(":")]
        if not names:
            continue

        def declared(params):
            return [q.get("name") for q in (params or []) if isinstance(q, dict) and q.get("in") == "path"]
        top = declared(item.get("parameters"))
        opers = [k for k in sorted(item) if k in METHODS]
        for n in names:
            missing_in = [k for k in (opers or ["-"]) if n not in top and n not in declared(
                (item.get(k) or {}).get("parameters") if k != "-" else None)]
            if missing_in:
                v.append({"clause": "E4", "detail": "path %r: template parameter %r is not declared in parameters "
                          "(declared: %s)" % (p, n, top), "sig": {"what": "undeclared_path_param"}})
                break
    # E5
    present = set()
    for p in paths:
        item = paths[p] if isinstance(paths[p], dict) else {}
        for k in item:
            if k in ("post", "get", "delete"):
                present.add((k, p))
    expected = {}     # (method, openapi path) -> (model, op, bottle path)
    loose = []        # inferred primary key: any single column of the model is accepted as the item parameter
    for (mname, op, route) in sorted(wanted):
        m = by_name[mname]
        if op == "C":
            expected[("post", to_openapi_path(route))] = (mname, op, route)
        elif m["pk"] is not None:
            bp = "%s/:%s" % (route, m["cols"][m["pk"]]["name"])
            expected[(OP_METHOD[op], to_openapi_path(bp))] = (mname, op, bp)
        else:
            loose.append((mname, op, route))
    unmatched = set(k for k in present if k not in expected)
    missing = [(k, expected[k]) for k in sorted(expected) if k not in present]
    for (mname, op, route) in loose:
        m = by_name[mname]
        cands = [(OP_METHOD[op], to_openapi_path("%s/:%s" % (route, c["name"]))) for c in m["cols"]]
        hit = [k for k in cands if k in present]
        if hit:
            unmatched.difference_update(hit)
        else:
            bp = "%s/:%s" % (route, m["cols"][0]["name"])
            missing.append((cands[0], (mname, op, bp)))
    if missing:
        shadowed = visible_sequence(analyses, files, app)
        by_cause = {}
        for (meth, opath), (mname, op, bp) in missing:
            cause = explain_missing(analyses, files, app, meth, bp, shadowed)
            by_cause.setdefault(cause, []).append("%s %s (%s:%s)" % (meth.upper(), opath, mname, op))
        for cause in sorted(by_cause):
            v.append({"clause": "E5", "detail": "app %s: requested operations missing from the document [%s]: %s; present: %s" % (
                app, cause, by_cause[cause][:6], sorted("%s %s" % (k.upper(), p) for k, p in present)[:10]),
                "sig": {"what": "missing_ops", "cause": cause}})
    if unmatched:
        v.append({"clause": "E5", "detail": "app %s: operations in the document that were never requested: %s" % (
            app, sorted("%s %s" % (k.upper(), p) for k, p in unmatched)[:6]), "sig": {"what": "extra_ops"}})
    # E7
    touched = sorted(set(mname for (mname, _, _) in wanted))
    for m in models:
        schema = schemas.get(m["name"])
        if schema is None:
            schema = schemas.get(derived_key(m))
        if schema is None:
            if m["name"] in touched:
                v.append({"clause": "E7", "detail": "no schema for model %s (keys: %s)" % (m["name"], sorted(schemas)[:8]),
                          "sig": {"what": "missing_schema"}})
            continue
        props = schema.get("properties") if isinstance(schema, dict) else None
        got = sorted(props) if isinstance(props, dict) else None
        want = sorted(c["name"] for c in m["cols"])
        if got != want:
            v.append({"clause": "E7", "detail": "schema of %s lists %s, the model's columns are %s" % (m["name"], got, want),
                      "sig": {"what": "columns_differ"}})
    for (meth, opath), (mname, op, _) in sorted(expected.items()):
        if (meth, opath) not in present or meth == "delete":
            continue
        orefs = []
        _walk_refs(paths[opath][meth], "", orefs)
        targets = sorted(set(r for _, r in orefs if r.startswith("#/components/schemas/") and not r.endswith("/ServerError")))
        if targets and targets != ["#/components/schemas/" + mname]:
            v.append({"clause": "E7", "detail": "%s %s was generated for model %s but describes %s" % (
                meth.upper(), opath, mname, targets), "sig": {"what": "wrong_ref_target"}})
    # the prose of an operation (summary, descriptions of the operation and of its parameters) names, in back-ticks,
    # the model it was generated for: it must not name ANOTHER model of the document instead
    import re as _re
    all_names = set(m["name"] for m in models)
    for (meth, opath), (mname, op, _) in sorted(expected.items()):
        if (meth, opath) not in present:
            continue
        texts = []

        def _collect(node):
            if isinstance(node, dict):
                for k_, val in node.items():
                    if k_ in ("summary", "description") and isinstance(val, str):
                        texts.append(val)
                    else:
                        _collect(val)
            elif isinstance(node, list):
                for val in node:
                    _collect(val)
        _collect(paths[opath][meth])
        _collect(paths[opath].get("parameters", []))
        named = set(_re.findall(r"`(\w+)`", " ".join(texts)))
        other = sorted(named & (all_names - {mname}))
        if other and mname not in named:
            v.append({"clause": "E7", "detail": "%s %s was generated for model %s but its summary/descriptions name %s: %r" % (
                meth.upper(), opath, mname, other, texts[:3]), "sig": {"what": "prose_names_other_model"}})
    return v


_JS_TYPES = {"String": "string", "Integer": "integer", "Boolean": "boolean", "Float": "number", "JSON": "object"}


def check_emit_path(plan, probe):
    """The SDK entry `cdd.compound.openapi.emit.openapi` (the other producer of documents named by the property's
    anchors): one (name, JSON-schema, route, id, crud) entry per model of the plan, schema written by hand from the
    model's columns.  E1-E4 as for the bulk path; E5: exactly C->POST on the collection, R->GET and D->DELETE on
    `<route>/{id}` and no other operation; E6: components.schemas[name] is the given schema (minus its $-keys)."""
    models = plan["models"]
    entries = []
    for i, m in enumerate(models):
        cmd = next((c for c in plan["cmds"] if c["model"] % len(models) == i), None)
        crud = cmd["crud"] if cmd and cmd["crud"] and not set(cmd["crud"]) - set("CRD") else "CRD"
        route = route_of(m, (cmd["route"] if cmd and cmd["route"] in (1, 2) else 0))
        props = {}
        for c in m["cols"]:
            d = {"type": _JS_TYPES.get(c["typ"], "string")}
            if c.get("doc"):
                d["description"] = c["doc"]
            props[c["name"]] = d
        pk = m["cols"][m["pk"]]["name"] if m["pk"] is not None else m["cols"][0]["name"]
        schema = {"$id": "https://example.com/%s.schema.json" % m["name"].lower(), "type": "object",
                  "description": m.get("doc") or "", "properties": props, "required": [pk]}
        entries.append((m["name"], schema, route, pk, crud))
    import cdd.compound.openapi.emit
    from cdd.compound.openapi.utils.emit_openapi_utils import NameModelRouteIdCrud
    try:
        doc = cdd.compound.openapi.emit.openapi([NameModelRouteIdCrud(*json.loads(json.dumps(e))) for e in entries])
    except Exception as e:
        _bump(probe, "emit_path_raised_" + type(e).__name__)
        return []
    _bump(probe, "emit_path_document_checked")
    v = []

    def bad(clause, what, detail):
        v.append({"clause": clause, "detail": "openapi() SDK emit of %s: %s" % (
            [(e[0], e[2], e[3], e[4]) for e in entries], detail), "sig": {"what": what, "path": "sdk_emit"}})
    try:
        json.dumps(doc, allow_nan=False)
    except (TypeError, ValueError, RecursionError) as e:
        bad("E1", "not_json", "document is not JSON-serialisable: %s" % e)
        return v
    refs = []
    _walk_refs(doc, "#", refs)
    unresolved = sorted(set(ref for _, ref in refs if not _resolves(doc, ref)))
    if unresolved:
        bad("E3" if all(r.startswith("#/components/requestBodies/") for r in unresolved) else "E2", "unresolved_ref",
            "$ref(s) that do not resolve inside the document: %s" % unresolved[:4])
    paths = doc.get("paths") or {}
    for p in sorted(paths):
        item = paths[p] if isinstance(paths[p], dict) else {}
        names = re.findall(r"\{([^{}/]*)\}", p)
        declared = [q.get("name") for q in (item.get("parameters") or []) if isinstance(q, dict) and q.get("in") == "path"]
        for k in [k for k in item if k in METHODS]:
            declared += [q.get("name") for q in ((item[k] or {}).get("parameters") or [])
                         if isinstance(q, dict) and q.get("in") == "path"]
        missing = [n for n in names if n not in declared]
        if missing:
            bad("E4", "undeclared_path_param", "path %r: template parameter(s) %s not declared (declared: %s)" % (
                p, missing, declared))
    expected = set()
    for name, schema, route, pk, crud in entries:
        item_path = "%s/{%s}" % (route, pk)
        for c in crud:
            expected.add(("post", route) if c == "C" else ("get", item_path) if c == "R" else ("delete", item_path))
    present = set((k, p) for p in paths for k in (paths[p] if isinstance(paths[p], dict) else {}) if k in METHODS)
    if present != expected:
        bad("E5", "operations_differ", "operations missing: %s; operations not requested: %s" % (
            sorted(expected - present), sorted(present - expected)))
    schemas = (doc.get("components") or {}).get("schemas") or {}
    for name, schema, route, pk, crud in entries:
        want = dict((k, x) for k, x in schema.items() if not k.startswith("$"))
        if schemas.get(name) != want:
            bad("E6", "schema_differs", "components.schemas[%r] is %s, the model given was %s" % (
                name, json.dumps(schemas.get(name))[:300], json.dumps(want)[:300]))
    return v


def check_effects(before, after, events, allowed_rel):
    """E0 — asserted always: nothing but the routes file named on the command line is ever written."""
    v = []
    created, modified, deleted = SimWorld.diff(before, after)
    other = [p for p in created + modified + deleted if p != allowed_rel]
    if other:
        v.append({"clause": "E0", "detail": "paths other than %s changed: %s" % (allowed_rel, other[:6]),
                  "sig": {"what": "world_changed_elsewhere"}})
    for e in events:
        mut = (e["kind"] == "open_w" and (e.get("done") or e.get("refused"))) or e["kind"] == "open_raw_w" \
            or (e["kind"] in seams.MUTATING and e["kind"] not in ("open_w", "close_w"))
        if mut and not (e.get("inside") and e["path"] == allowed_rel):
            v.append({"clause": "E0", "detail": "%s on %r at %s (only %s may be written)" % (
                e["kind"], e["path"] if e.get("inside") else "<outside>", e.get("site"), allowed_rel),
                "sig": {"what": "seam_call_elsewhere", "site": e.get("site") or "?"}})
            break
    return v


# ------------------------------------------------------------------------------------ simulation
_warm = [False]


def warm_up():
    if not _warm[0]:
        proc.import_all()
        _warm[0] = True


def _resolve_fault(f, io_events, routes_rel):
    """Concretise a drawn fault against the rehearsal's seam calls (same scheme as checks/c20.py)."""
    if f is None or not io_events:
        return None
    if "at" in f:
        at = f["at"]
        ev = next((e for e in io_events if e["io"] == at), None)
        if ev is None:
            return None
    else:
        cands = io_events
        if f.get("target") == "mut":
            cands = [e for e in io_events if e["kind"] in seams.MUTATING and e["path"] == routes_rel] or io_events
        ev = cands[min(int(f["frac"] * len(cands)), len(cands) - 1)]
        at = ev["io"]
    out = {"seam": "io", "at": at, "kind": f["kind"]}
    if f["kind"] == "err":
        errs = seams.ERRNOS_FOR.get(ev["kind"], ("EIO",))
        out["errno"] = f.get("errno") or errs[f.get("errno_i", 0) % len(errs)]
        if ev["kind"] == "close_w":
            out["keep"] = f.get("keep", 0.0)
    return out


def _bump(d, k, n=1):
    d[k] = d.get(k, 0) + n


ALIASES = {"Config": "Konfig", "Settings": "Sessions", "Record": "Rekord", "Model": "Modal", "Loader": "Loafer"}


def _user_renames_model(world, plan, models, wanted, stats, probe):
    """End of a history: the simulated user renames one model to a name of the same length - class, table and every
    mention in the routes files, by search and replace - within the same clock second as the last command (every file
    keeps its size and its whole-second timestamp).  The document generated next must be the document of the renamed
    project: nothing remembered from the earlier openapi_bulk calls of this process may show in it."""
    cand = [m for m in models if m["name"] in ALIASES and any(w[1] == m["name"] for w in wanted)
            and not any(o is not m and (o["name"].lower() in m["name"].lower() or m["name"].lower() in o["name"].lower())
                        for o in models)]
    present_files = [f for f in ROUTE_FILES if world.exists(f)]
    if not cand or not present_files:
        return []
    m = cand[0]
    old, new = m["name"], ALIASES[m["name"]]

    def ren(text):
        return text.replace(old, new).replace(old.lower(), new.lower()) if isinstance(text, str) else text
    for rel in ["models.py"] + present_files:
        full = world.p(rel)
        st_ = os.stat(full)
        text = world.read(rel)
        world.write_files({rel: ren(text)})
        os.utime(full, ns=(st_.st_atime_ns, st_.st_mtime_ns))
    models2 = [dict(x, name=ren(x["name"]), table=ren(x["table"]), doc=ren(x["doc"])) if x is m else x for x in models]
    wanted2 = set((a, ren(mn) if mn == old else mn, c, ren(r) if mn == old else r) for (a, mn, c, r) in wanted)
    _bump(probe, "user_renamed_model_same_size_same_second")
    analyses = dict((f, analyse_routes(world.read(f))) for f in present_files)
    viols = []
    for a in sorted(set(w[0] for w in wanted2)):
        o2 = ops.invoke(world, {"cmd": "sdk", "fn": "cdd.compound.openapi.gen_openapi.openapi_bulk",
                                "kwargs": {"app_name": a, "model_paths": ["{ROOT}/models.py"],
                                           "routes_paths": ["{ROOT}/" + f for f in present_files]}})
        stats["evaluations"] += 1
        _bump(stats["outcomes"], "openapi_bulk_after_rename:%s" % o2.kind)
        if o2.ok:
            want_a = set((mn, c, r) for (aa, mn, c, r) in wanted2 if aa == a)
            viols += check_document(o2.result, models2, want_a, a, analyses, present_files)
    for x in viols:
        x["detail"] = "after the user renamed %s to %s in models.py and %s (same sizes, same second): %s" % (
            old, new, ", ".join(present_files), x["detail"])
        x["sig"] = dict(x["sig"], after_rename=True)
    return viols


def simulate(plan):
    warm_up()
    res = SimResult()
    res.plan_digest = digest_of(plan)
    stats = {"commands": 0, "evaluations": 0, "outcomes": {}, "faults_fired": {}, "fault_sites": [], "probes": {},
             "world_states": [], "extra": {"violations_by_class_per_evaluated_step": {}}}
    res.stats = stats
    probe = stats["probes"]
    models = plan["models"]
    world = SimWorld(tag="c16")
    files = {"models.py": render_models(models)}
    world.write_files(files)
    wanted = set()          # R: (app, model name, op, route)
    held = {}               # element of R -> routes file it was first generated into
    history = []
    concrete = {"models": models, "cmds": [], "rename": bool(plan.get("rename"))}
    completed = 0
    docs_ok = 0
    order_ok = []           # model index of every completed, file-changing command (for the interleaving probe)
    try:
        for ci, cmd in enumerate(plan["cmds"]):
            cmd = dict(cmd)
            if cmd.get("restart"):
                proc.purge(("cdd",))
                _warm[0] = False
                warm_up()
                _bump(probe, "restart")
            m = models[cmd["model"] % len(models)]
            app = APPS[cmd["app"]]
            route = route_of(m, cmd["route"])
            # an operation that already lives in one routes file is not requested into the other one (the same
            # method on the same path twice has no defined meaning): such a command goes to the file that holds it
            homes = sorted(set(held[(app, m["name"], c, route)] for c in cmd["crud"] if (app, m["name"], c, route) in held))
            if homes and ROUTE_FILES[cmd["file"]] not in homes:
                cmd["file"] = ROUTE_FILES.index(homes[0])
            rel = ROUTE_FILES[cmd["file"]]
            op = {"cmd": "cli", "argv": argv_of(plan, cmd)}
            cp = world.checkpoint()
            before = world.snapshot()
            existed = rel in before
            fault = None
            if cmd.get("fault"):
                reh = ops.invoke(world, op)
                world.restore(cp)
                fault = _resolve_fault(cmd["fault"], reh.io_events(), rel)
            o = ops.invoke(world, op, faults=[fault] if fault else None)
            after = world.snapshot()
            stats["commands"] += 1
            _bump(stats["outcomes"], "gen_routes:%s" % o.kind + (":" + o.exc_type if o.kind == "raised" else ""))
            for f in o.fired:
                _bump(stats["faults_fired"], "%s@%s" % (f["kind"] if f["kind"] == "crash" else f.get("errno", "err"), f["event"]))
                stats["fault_sites"].append("%s:%s" % (f["event"], f.get("site")))
                if f["kind"] == "crash":
                    _bump(probe, "crash_fired")
                if f["event"] in ("open_w", "close_w") and f.get("path") == rel:
                    _bump(probe, "fault_fired_on_append" if existed else "fault_fired_on_first_write")
            viols = check_effects(before, after, o.events, rel)
            changed = before.get(rel) != after.get(rel)
            evaluate = False
            if o.ok:
                completed += 1
                for c in cmd["crud"]:
                    if c in OP_METHOD:
                        wanted.add((app, m["name"], c, route))
                        held.setdefault((app, m["name"], c, route), rel)
                evaluate = True
                if changed:
                    order_ok.append(cmd["model"] % len(models))
                    if existed:
                        _bump(probe, "upsert_appended_to_existing_routes_file")
                    if m["name"] not in SINGLE:
                        _bump(probe, "multiword_model")
                    if m["pk"] is None:
                        _bump(probe, "inferred_pk_model")
                    if cmd["file"]:
                        _bump(probe, "second_routes_file")
                    if cmd["app"]:
                        _bump(probe, "second_app")
                    if cmd["route"]:
                        _bump(probe, "explicit_route")
                    if len(order_ok) >= 3 and any(order_ok[i] != order_ok[-1] and order_ok[-1] in order_ok[:i]
                                                  for i in range(len(order_ok) - 1)):
                        _bump(probe, "two_models_interleaved")
                elif existed:
                    _bump(probe, "noop_upsert")
            else:
                if cmd["crud"] in REFUSED_CRUDS and not o.fired:
                    _bump(probe, "refused_request")
                if changed:
                    # the user's recovery: the routes file is put back from the last good state
                    world.restore(cp)
                    _bump(probe, "recovered_after_fault")
                    after = world.snapshot()
            doc_digests = []
            if evaluate:
                present_files = [f for f in ROUTE_FILES if f in after]
                analyses = dict((f, analyse_routes(world.read(f))) for f in present_files)
                viols += check_routes_files(analyses)
                apps = sorted(set(a for (a, _, _, _) in wanted) | set([app]))
                for a in apps if present_files else ():
                    o2 = ops.invoke(world, {"cmd": "sdk", "fn": "cdd.compound.openapi.gen_openapi.openapi_bulk",
                                            "kwargs": {"app_name": a, "model_paths": ["{ROOT}/models.py"],
                                                       "routes_paths": ["{ROOT}/" + f for f in present_files]}})
                    stats["evaluations"] += 1
                    _bump(stats["outcomes"], "openapi_bulk:%s" % o2.kind + (":" + o2.exc_type if o2.exc_type else ""))
                    viols += check_effects(after, world.snapshot(), o2.events, None)
                    if o2.ok:
                        docs_ok += 1
                        _bump(probe, "openapi_ok")
                        want_a = set((mn, c, r) for (aa, mn, c, r) in wanted if aa == a)
                        viols += check_document(o2.result, models, want_a, a, analyses, present_files)
                        try:
                            doc_digests.append(digest_of(o2.result))
                        except (TypeError, ValueError):
                            doc_digests.append("unserialisable")
                    else:
                        doc_digests.append("%s:%s" % (o2.kind, o2.exc_type))
            for x in viols:
                _bump(stats["extra"]["violations_by_class_per_evaluated_step"], "%s:%s" % (x["clause"], ",".join("%s=%s" % kv for kv in sorted(x["sig"].items()))))
                x["detail"] = "cmd %d `%s`: %s" % (ci, " ".join(op["argv"]), x["detail"])
            res.violations += viols
            ccmd = dict(cmd)
            if fault:
                ccmd["fault"] = fault
            elif cmd.get("fault"):
                ccmd["fault"] = None
            concrete["cmds"].append(ccmd)
            wd = SimWorld.digest(after)
            stats["world_states"].append(wd)
            history.append({"argv": op["argv"], "outcome": o.brief(), "docs": doc_digests, "world": wd,
                            "events": [(e["kind"], e["path"] if e.get("inside") else "<outside>") for e in o.events if "io" in e],
                            "violated": sorted(set(x["clause"] for x in viols))})
        if plan.get("rename") and completed and not res.violations:
            res.violations += _user_renames_model(world, plan, models, wanted, stats, probe)
        final_files = dict((f, world.read(f)) for f in ROUTE_FILES if world.exists(f))
        ev = check_emit_path(plan, probe)
        if ev:
            res.violations += ev
        stats["evaluations"] += 1
    finally:
        world.destroy()
    if not res.violations:
        _bump(stats["extra"], "histories_satisfying_every_clause")
    else:
        _bump(stats["extra"], "histories_violating_a_clause")
        per_history = stats["extra"].setdefault("histories_by_violation_class", {})
        for k in sorted(set("%s:%s" % (x["clause"], ",".join("%s=%s" % kv for kv in sorted(x["sig"].items())))
                            for x in res.violations)):
            _bump(per_history, k)
    res.trace = {"kind": "c16-plan", "plan": concrete, "files": files,
                 "history": [{"argv": h["argv"], "outcome": dict((k, v) for k, v in h["outcome"].items() if k != "msg"),
                              "violated": h["violated"]} for h in history],
                 "final_routes_files": final_files}
    res.digest = digest_of([(h["argv"], h["outcome"].get("kind"), h["outcome"].get("exc"), h["events"], h["world"], h["docs"])
                            for h in history])
    res.nontrivial = completed > 0 and docs_ok > 0 and any(probe.values())
    res.sample = {"models": [{"name": m["name"], "table": m["table"], "pk": m["pk"],
                              "columns": [c["name"] for c in m["cols"]]} for m in models],
                  "history": [{"argv": h["argv"], "outcome": h["outcome"].get("kind"), "violated": h["violated"]}
                              for h in history]}
    return res


# ------------------------------------------------------------------------------ runner interface
def plan(tier, seed, scale=1.0):
    n_workers = 16
    per = int({"quick": 900, "thorough": 10000}[tier] * scale)
    return [{"seed": seed * 1000 + w, "n": per, "tier": tier} for w in range(n_workers)]


def work(task):
    known = load_known(ID)
    return explore(plans(), simulate, task["seed"], task["n"], known, batch=100 if task["tier"] == "quick" else 250)


def replay(trace):
    return simulate(trace["plan"]).violations
