"""C20 — exmod --dry-run writes nothing; a real run stays inside the output directory.

Package-tree machine (DESIGN.md §3 C20): a generated package under <world>/src, histories of exmod
commands (dry / real, merge into populated output), world snapshot + seam log as oracle, I/O faults and
crashes at seam calls — one drawn per faulty command, and every seam call enumerated on flagged trees.
"""
import ast
import importlib
import os
import re
import sys

from hypothesis import strategies as st

import cddsim
from cddsim import gen, ops, proc, seams
from cddsim import hyp
from cddsim.hyp import SimResult, digest_of, explore
from cddsim.runner import load_known
from cddsim.world import SimWorld

ID = "C20"
LEVEL = "fault_enumeration"
RULE = ("Hypothesis-drawn package trees (1..3 levels, classes/functions re-exported through __init__/__all__, "
        "absolute or relative imports) x histories of 1..4 exmod commands (emit kind, recursive, dry-run, "
        "black/whitelist entries, sqlalchemy submodule, pre-existing output) run through cdd.__main__.main under "
        "the open/audit seams; one seeded fault (error or crash at a drawn seam call) in ~60% of histories and, on "
        "flagged trees, every mutating seam call of the last command faulted once per kind (error, crash) plus a "
        "stride of the read calls. A run is non-trivial if at least one command ran to completion and a reach "
        "probe fired; distinct = distinct outcome digest (seam log + outcomes + world snapshots).")
ASSUMPTIONS = [
    "interpreter bytecode caches are not tool output (sys.dont_write_bytecode = True)",
    "faults are one-shot; process-crash semantics (closed files persist, open buffers are lost); no power loss",
    "the package is located through sys.path (find_spec), not pip-installed",
    "J5 is asserted for black/whitelist entries that name a sub-package not re-exported by a surviving package",
]
REAL = ["cdd (all modules, from the working tree)", "cdd.__main__.main argv parsing", "CPython ast/importlib",
        "black", "setuptools.find_packages", "the tmpfs file system for everything that persists"]
STUBBED = ["durability of write-mode file objects (SimFile: buffered until close, fault decides the prefix)",
           "OS error returns (synthetic OSError with real errno)", "process crash (SimCrash at a seam call)",
           "the user (seeded histories)"]
EMITS = ("class", "function", "argparse", "sqlalchemy", "sqlalchemy_table", "sqlalchemy_hybrid", "json_schema",
         "pydantic")
MODS = ("alpha", "beta", "gamma", "delta", "utils_", "core_ops")
SUBS = ("sub", "extras", "engine", "tools", "models", "kit")   # several share leading characters with a package name


def probes():
    return ["dry_run_ok", "real_run_ok_wrote_symbol", "merge_into_existing_output", "dry_over_populated_output",
            "fault_fired_in_real_run", "fault_fired_in_dry_run", "blacklist_excluded_subpackage", "recursive_real_ok",
            "crash_fired", "sa_submodule_requested", "reexport_via_subpackage_real_ok"]


# ------------------------------------------------------------------------------------ generators
@st.composite
def _symbols(draw, used):
    out = []
    for _ in range(draw(st.integers(1, 2))):
        kind = draw(st.sampled_from(("class", "function")))
        # among the names: ones that are also names of builtins / keywords-in-waiting (a package may well export a
        # helper called `filter` or a class called `Warning`), a private-looking one, one with digits
        pool = (gen.CLASS_NAMES + ("Warning", "Exception_", "_Hidden", "Model2")) if kind == "class" else \
            (gen.FUNC_NAMES + ("filter", "format", "type", "id", "_helper", "step2"))
        free = [n for n in pool if n not in used]
        if not free:
            break
        name = draw(st.sampled_from(free))
        used.add(name)
        spec = draw(gen.interface_spec(name=name, min_params=1, max_params=3,
                                       types=gen.SIMPLE_TYPES + ("Optional[int]", "Optional[str]"),
                                       returns=(None if kind == "function" else False)))
        out.append({"kind": kind, "spec": spec})
    return out


@st.composite
def _modules(draw, used, lo=1, hi=2):
    names = draw(st.lists(st.sampled_from(MODS), min_size=lo, max_size=hi, unique=True))
    return {n: draw(_symbols(used)) for n in names}


@st.composite
def package_spec(draw):
    used = set()
    pkg = {"name": draw(st.sampled_from(("mypkg", "toolkit", "acme"))),
           "style": draw(st.sampled_from(("abs", "abs", "abs", "abs", "abs", "rel"))),
           "modules": draw(_modules(used)), "subs": {},
           "reexport_subs": draw(st.booleans()),
           # how the top-level package re-exports a sub-package's symbols: from the defining module, or from the
           # sub-package itself (`from pkg.sub import Name`)
           "reexport_via": draw(st.sampled_from(("module", "module", "subpackage")))}
    for sn in draw(st.lists(st.sampled_from(SUBS), min_size=0, max_size=2, unique=True)):
        sub = {"modules": draw(_modules(used, 1, 2)), "subs": {}}
        if draw(st.integers(0, 3)) == 3:
            sub["subs"]["deep"] = {"modules": draw(_modules(used, 1, 1)), "subs": {}}
        pkg["subs"][sn] = sub
    return pkg


def _sub_names(pkg):
    out = []
    for sn in sorted(pkg["subs"]):
        out.append(sn)
        for dn in sorted(pkg["subs"][sn]["subs"]):
            out.append(sn + "." + dn)
    return out


@st.composite
def command(draw, pkg):
    subs = _sub_names(pkg)
    cmd = {"emit": draw(st.sampled_from(EMITS[:6] + EMITS)), "recursive": draw(st.booleans()),
           "dry": draw(st.booleans()), "out": draw(st.sampled_from((0, 0, 0, 1, 2, 3))),
           "sa_sub": draw(st.integers(0, 3)) == 3, "bl": [], "wl": [], "fault": None,
           "restart": draw(st.integers(0, 9)) == 9, "module": None}
    if subs and draw(st.integers(0, 2)) >= 1:
        which = draw(st.sampled_from(("bl", "bl", "wl")))
        ents = draw(st.lists(st.sampled_from(subs), min_size=1, max_size=2, unique=True))
        form = draw(st.sampled_from(("relative", "relative", "relative", "dotted", "fqn", "glob")))
        if form == "glob" and which == "bl":
            # `sub.*`: everything below sub, not sub itself (setuptools.find_packages' exclude semantics)
            cmd[which] = [e + ".*" for e in ents]
        else:
            form = "relative" if form == "glob" else form
            cmd[which] = [{"relative": e, "dotted": "." + e, "fqn": pkg["name"] + "." + e}[form] for e in ents]
        cmd["recursive"] = True
    if subs and draw(st.integers(0, 5)) == 5:
        cmd["module"] = pkg["name"] + "." + draw(st.sampled_from(sorted(pkg["subs"])))
    if draw(st.integers(0, 9)) >= 4:
        cmd["fault"] = {"frac": draw(st.floats(0, 0.999)), "kind": draw(st.sampled_from(("err", "err", "crash"))),
                        "target": draw(st.sampled_from(("mut", "mut", "any"))),
                        "errno_i": draw(st.integers(0, 2)), "keep": draw(st.sampled_from((0.0, 0.5, 0.99)))}
    return cmd


@st.composite
def plans(draw, enum_every=4, enum_cap=None):
    pkg = draw(package_spec())
    cmds = draw(st.lists(command(pkg), min_size=1, max_size=4))
    follow = draw(st.integers(0, 6))
    if follow == 6:
        # a real run that dies on a full disk while closing one of the modules it generates (a torn module stays behind),
        # then a DRY run with the same options over that output
        base = dict(cmds[-1], dry=False, restart=False, emit=draw(st.sampled_from(("class", "function", "argparse"))),
                    fault={"frac": draw(st.floats(0, 0.999)), "kind": "err", "target": "close_py", "errno_i": 0,
                           "keep": draw(st.sampled_from((0.3, 0.5, 0.7)))})
        cmds[-1] = base
        cmds.append(dict(base, dry=True, fault=None))
    elif follow >= 4:
        # the classic history: a real run, then a DRY run with exactly the same options over the tree it left behind
        base = dict(cmds[-1], dry=False, fault=None, restart=False)
        if follow == 5:
            base["emit"] = draw(st.sampled_from(("sqlalchemy_table", "sqlalchemy_hybrid")))
            base["sa_sub"] = True
        cmds[-1] = base
        cmds.append(dict(base, dry=True))
    return {"pkg": pkg, "cmds": cmds, "out_exists": draw(st.sampled_from((False, False, True))),
            "black": draw(st.sampled_from((True, True, True, False))),
            "enum": draw(st.integers(0, enum_every - 1)) == enum_every - 1 if enum_every else False,
            "enum_stride": 1, "enum_cap": enum_cap}


# -------------------------------------------------------------------------------------- renderer
def render_package(pkg):
    files = {}

    def emit(prefix_path, fq, node, top):
        names_by_mod = []
        for mn in sorted(node["modules"]):
            syms = node["modules"][mn]
            src = []
            for s in syms:
                if s["kind"] == "class":
                    src.append(gen.render_class(s["spec"]))
                else:
                    src.append(gen.render_function(s["spec"], style="rest"))
            names = [s["spec"]["name"] for s in syms]
            src.append("__all__ = [%s]\n" % ", ".join(repr(n) for n in names))
            text = "\n\n".join(src)
            if "Optional[" in text:
                text = "from typing import Optional\n\n\n" + text
            files["%s/%s.py" % (prefix_path, mn)] = text
            names_by_mod.append((mn, names))
        lines, all_names = [], []
        for mn, names in names_by_mod:
            if pkg["style"] == "abs":
                lines.append("from %s.%s import %s" % (fq, mn, ", ".join(names)))
            else:
                lines.append("from .%s import %s" % (mn, ", ".join(names)))
            all_names += names
        if top and pkg["reexport_subs"]:
            for sn in sorted(node["subs"]):
                if pkg.get("reexport_via") == "subpackage":
                    names = [s["spec"]["name"] for mn in sorted(node["subs"][sn]["modules"])
                             for s in node["subs"][sn]["modules"][mn]]
                    lines.append(("from %s.%s import %s" % (fq, sn, ", ".join(names))) if pkg["style"] == "abs" else
                                 ("from .%s import %s" % (sn, ", ".join(names))))
                    all_names += names
                    continue
                for mn in sorted(node["subs"][sn]["modules"]):
                    names = [s["spec"]["name"] for s in node["subs"][sn]["modules"][mn]]
                    if pkg["style"] == "abs":
                        lines.append("from %s.%s.%s import %s" % (fq, sn, mn, ", ".join(names)))
                    else:
                        lines.append("from .%s.%s import %s" % (sn, mn, ", ".join(names)))
                    all_names += names
        lines.append("")
        lines.append("__all__ = [%s]" % ", ".join(repr(n) for n in all_names))
        files["%s/__init__.py" % prefix_path] = "\n".join(lines) + "\n"
        for sn in sorted(node["subs"]):
            emit("%s/%s" % (prefix_path, sn), "%s.%s" % (fq, sn), node["subs"][sn], False)

    emit("src/" + pkg["name"], pkg["name"], pkg, True)
    return files


# the third output directory has a dot in one of its components (as ~/.cache/x, build.v2/out or a mktemp name have)
# the fourth is named after the package itself (`-o stage/mypkg`: people mirror the package name)
OUT_DIRS = ("out0", "out1", "build.v2/out", "stage/{pkg}")


def _out_rel(cmd, pkg="mypkg"):
    return OUT_DIRS[cmd["out"] % len(OUT_DIRS)].replace("{pkg}", pkg)


def argv_of(plan, cmd):
    out = "{ROOT}/" + _out_rel(cmd, plan["pkg"]["name"])
    argv = ["exmod", "-m", cmd.get("module") or plan["pkg"]["name"], "--emit", cmd["emit"], "-o", out]
    if cmd["recursive"]:
        argv.append("-r")
    if cmd["dry"]:
        argv.append("--dry-run")
    if cmd["sa_sub"]:
        argv.append("--emit-sqlalchemy-submodule")
    for e in cmd["bl"]:
        argv += ["--blacklist", e]
    for e in cmd["wl"]:
        argv += ["--whitelist", e]
    return argv


# ---------------------------------------------------------------------------------------- oracle
_GEN_FROM = re.compile(r"Generated from ([\w.]+)")


def _site_of(ev):
    return ev.get("site") or "?"


def check_effects(world, cmd, out_rel, before, after, events, outcome_ok):
    """J1/J2/J3 — asserted always (also when the command failed or crashed)."""
    v = []
    created, modified, deleted = SimWorld.diff(before, after)
    changed = created + modified + deleted
    # a seam call counts on its own only when it certainly had (or, being refused by the simulator, would have
    # had) an effect: a write-mode open that succeeded, a raw write-open, a refused mutation outside the world.
    # Directory operations are judged by the snapshot (which includes mtimes, so create-then-delete shows too).
    mut_events = [e for e in events if (e["kind"] == "open_w" and (e.get("done") or e.get("refused")))
                  or e["kind"] == "open_raw_w" or (e["kind"] in seams.MUTATING and not e.get("inside"))]
    if cmd["dry"]:
        if changed:
            v.append({"clause": "J1", "detail": "dry-run changed the world: created=%s modified=%s deleted=%s" % (
                created[:6], modified[:6], deleted[:6]), "sig": {"what": "world_changed", "first": _kind_of(changed[0])}})
        eff = mut_events
        if eff:
            e = eff[0]
            v.append({"clause": "J1", "detail": "dry-run performed %s on %r at %s (%d mutating seam calls)" % (
                e["kind"], e["path"], _site_of(e), len(eff)), "sig": {"what": "mutating_seam_call", "site": _site_of(e)}})
    else:
        pref = out_rel + os.sep
        outside = [p for p in changed if not (p == out_rel or p.startswith(pref))]
        # creating the output directory changes the mtime of the (existing) directories above it: not a write "outside"
        outside = [p for p in outside if not (p in modified and out_rel.startswith(p + os.sep))]
        if outside:
            v.append({"clause": "J2", "detail": "real run touched paths outside %s: %s" % (out_rel, outside[:6]),
                      "sig": {"what": "path_outside_output", "first": _kind_of(outside[0])}})
        for e in mut_events:
            p = e["path"]
            inside = e.get("inside") and (p == out_rel or p.startswith(pref))
            if not inside:
                v.append({"clause": "J2", "detail": "real run issued %s on %r (outside %s) at %s" % (
                    e["kind"], p, out_rel, _site_of(e)), "sig": {"what": "seam_call_outside_output", "site": _site_of(e)}})
                break
    src_changed = [p for p in changed if p == "src" or p.startswith("src" + os.sep)]
    if src_changed:
        v.append({"clause": "J3", "detail": "source package modified: %s" % src_changed[:6],
                  "sig": {"what": "source_changed"}})
    return v


def _kind_of(rel):
    if rel.startswith("src"):
        return "src"
    if rel.startswith("out") or rel.startswith("build.v2/out") or rel.startswith("stage/"):
        return "out"
    return "elsewhere"


def check_outputs(world, plan, cmd, out_rel, before, after, prior=None):
    """J4/J5 — on ok real runs.  `prior`: {rel: 'Generated from' markers the file already held before this command} — what
    an earlier command (possibly for another module) left in a file this one merged into is not this command's output."""
    prior = prior or {}
    v = []
    created, modified, _ = SimWorld.diff(before, after)
    touched = [p for p in created + modified if p.endswith(".py") and after[p][0] == "f"]
    headers = {}
    for rel in touched:
        text = world.read(rel)
        try:
            mod = ast.parse(text)
        except SyntaxError as e:
            v.append({"clause": "J4", "detail": "generated %s does not parse: %s" % (rel, e),
                      "sig": {"what": "unparsable", "emit": cmd["emit"]}})
            continue
        for m in _GEN_FROM.findall(text):
            if m not in prior.get(rel, ()):
                headers.setdefault(m, rel)
        defined = set()
        all_names = None
        for node in mod.body:
            if isinstance(node, (ast.FunctionDef, ast.AsyncFunctionDef, ast.ClassDef)):
                defined.add(node.name)
            elif isinstance(node, (ast.Import, ast.ImportFrom)):
                for a in node.names:
                    defined.add((a.asname or a.name).split(".")[0])
            elif isinstance(node, ast.Assign):
                for t in node.targets:
                    if isinstance(t, ast.Name):
                        if t.id == "__all__" and isinstance(node.value, (ast.List, ast.Tuple)):
                            all_names = [e.value for e in node.value.elts if isinstance(e, ast.Constant)]
                        else:
                            defined.add(t.id)
            elif isinstance(node, ast.AnnAssign) and isinstance(node.target, ast.Name):
                defined.add(node.target.id)
        if all_names:
            missing = [n for n in all_names if n not in defined]
            if missing:
                v.append({"clause": "J4", "detail": "%s: __all__ names %s neither defined nor imported" % (rel, missing),
                          "sig": {"what": "all_undefined", "emit": cmd["emit"]}})
    # J5
    pkg = plan["pkg"]
    if cmd.get("module"):
        return v, headers
    excluded = []  # (relative package, entry form)
    for e in cmd["bl"]:
        if e.endswith(".*"):
            excluded += [(d, "glob", "blacklist") for d in _sub_names(pkg) if d.startswith(e[:-1])]
            continue
        r, form = _norm_entry(pkg, e)
        if r is not None:
            excluded.append((r, form, "blacklist"))
    if cmd["wl"]:
        allowed = set()
        for e in cmd["wl"]:
            r, form = _norm_entry(pkg, e)
            allowed.add(r)
        form = _norm_entry(pkg, cmd["wl"][0])[1]
        for r in [""] + _sub_names(pkg):
            if r not in allowed:
                excluded.append((r, form, "whitelist"))
    for r, form, which in excluded:
        node = _node_at(pkg, r)
        if node is None:
            continue
        if r != "" and pkg["reexport_subs"] and "." not in r:
            continue  # re-exported by the top-level package: attribution ambiguous, not asserted
        fq = pkg["name"] + ("." + r if r else "")
        for mn in sorted(node["modules"]):
            bad = [h for h in headers if h.startswith("%s.%s." % (fq, mn))]
            if bad:
                v.append({"clause": "J5", "detail": "%s entry for %r but output %s was generated from %s" % (
                    which, r or pkg["name"], headers[bad[0]], bad[0]),
                    "sig": {"what": which, "entry_form": form}})
                break
    return v, headers


def _norm_entry(pkg, e):
    name = pkg["name"]
    if e == "." + name or e == name:
        return "", ("dotted" if e.startswith(".") else "fqn")
    if e.startswith(name + "."):
        return e[len(name) + 1:], "fqn"
    if e.startswith("."):
        return e[1:], "dotted"
    return e, "relative"


def _node_at(pkg, r):
    node = pkg
    if r == "":
        return node
    for part in r.split("."):
        node = node["subs"].get(part)
        if node is None:
            return None
    return node


# ------------------------------------------------------------------------------------ simulation
_warm = [False]


def warm_up():
    if not _warm[0]:
        proc.import_all()
        _warm[0] = True


def _purge_pkg(pkg):
    proc.purge((pkg["name"],))


def _resolve_fault(f, io_events):
    """Concretise a drawn fault against the rehearsal's seam calls."""
    if f is None or not io_events:
        return None
    if "at" in f:
        at = f["at"]
        ev = next((e for e in io_events if e["io"] == at), None)
        if ev is None:
            return None
    else:
        cands = [e for e in io_events if e["kind"] in seams.MUTATING] if f.get("target") == "mut" else io_events
        if f.get("target") == "close_py":
            # the close of a generated module (a torn .py file is what the next run has to cope with)
            cands = [e for e in io_events if e["kind"] == "close_w" and str(e.get("path", "")).endswith(".py")
                     and e.get("nbytes", 0) > 40 and not str(e.get("path", "")).endswith("__init__.py")] or \
                    [e for e in io_events if e["kind"] == "close_w" and e.get("nbytes", 0) > 40]
        if not cands:
            cands = io_events
        ev = cands[min(int(f["frac"] * len(cands)), len(cands) - 1)]
        at = ev["io"]
    out = {"seam": "io", "at": at, "kind": f["kind"]}
    if f["kind"] == "err":
        errs = seams.ERRNOS_FOR.get(ev["kind"], ("EIO",))
        out["errno"] = f.get("errno") or errs[f.get("errno_i", 0) % len(errs)]
        if ev["kind"] == "close_w":
            out["keep"] = f.get("keep", 0.0)
    return out


def simulate(plan, enumerate_all=None):
    warm_up()
    res = SimResult()
    res.plan_digest = digest_of(plan)
    stats = {"commands": 0, "outcomes": {}, "faults_fired": {}, "fault_sites": [], "probes": {}, "world_states": [],
             "evaluations": 0}
    res.stats = stats
    pkg = plan["pkg"]
    world = SimWorld(tag="c20")
    files = render_package(pkg)
    files["notes.txt"] = "unrelated file next to the output directory\n"
    if plan.get("out_exists"):
        files["out0/keep.txt"] = "pre-existing unrelated file\n"
    files["build.v2"] = None
    files["stage"] = None     # (the parents of nested output directories exist: creating them is not the question)
    world.write_files(files)
    src_path = world.p("src")
    sys.path.insert(0, src_path)
    importlib.invalidate_caches()
    history = []
    concrete = dict(plan)
    concrete["cmds"] = []
    completed = 0
    probe = stats["probes"]

    def bump(d, k, n=1):
        d[k] = d.get(k, 0) + n

    try:
        for ci, cmd in enumerate(plan["cmds"]):
            cmd = dict(cmd)
            if cmd.get("restart"):
                proc.purge(("cdd",))
                _warm[0] = False
                warm_up()
            out_rel = _out_rel(cmd, plan["pkg"]["name"])
            op = {"cmd": "cli", "argv": argv_of(plan, cmd)}
            populated = any(p.startswith(out_rel + os.sep) and p.endswith(".py") for p in world.snapshot())
            cp = world.checkpoint()
            fault = None
            last = ci == len(plan["cmds"]) - 1
            do_enum = bool(plan.get("enum")) and last if enumerate_all is None else (enumerate_all and last)
            if hyp.SHRINKING[0]:
                do_enum = False
            reh_events = None
            if cmd.get("fault") or do_enum:
                # rehearsal on the same absolute paths: learn the seam calls of the fault-free run
                _purge_pkg(pkg)
                reh = ops.invoke(world, op, black=plan.get("black", True))
                reh_events = reh.io_events()
                world.restore(cp)
                fault = _resolve_fault(cmd.get("fault"), reh_events)
            if do_enum and reh_events:
                for x in _enumerate(world, plan, cmd, op, out_rel, cp, reh_events, stats, bump):
                    # concrete replay: the same plan with this fault on the last command, no enumeration
                    p2 = dict(plan, enum=False)
                    p2["cmds"] = [dict(c) for c in plan["cmds"]]
                    p2["cmds"][-1]["fault"] = x.pop("enum_fault")
                    x["final"] = True
                    x["trace"] = {"kind": "c20-plan", "plan": p2}
                    res.violations.append(x)
                world.restore(cp)
            before = world.snapshot(with_mtime=True)
            prior = {}
            if populated and not cmd["dry"]:
                for p_ in before:
                    if p_.startswith(out_rel + os.sep) and p_.endswith(".py") and before[p_][0] == "f":
                        prior[p_] = set(_GEN_FROM.findall(world.read(p_)))
            _purge_pkg(pkg)
            o = ops.invoke(world, op, faults=[fault] if fault else None, black=plan.get("black", True))
            after = world.snapshot(with_mtime=True)
            stats["commands"] += 1
            stats["evaluations"] += 1
            bump(stats["outcomes"], "exmod_%s:%s" % ("dry" if cmd["dry"] else "real", o.kind))
            for f in o.fired:
                bump(stats["faults_fired"], "%s@%s" % (f["kind"] if f["kind"] == "crash" else f.get("errno", "err"), f["event"]))
                stats["fault_sites"].append("%s:%s" % (f["event"], f.get("site")))
                bump(probe, "fault_fired_in_dry_run" if cmd["dry"] else "fault_fired_in_real_run")
                if f["kind"] == "crash":
                    bump(probe, "crash_fired")
            viols = check_effects(world, cmd, out_rel, before, after, o.events, o.ok)
            headers = {}
            if o.ok and not o.fired:
                completed += 1
                if cmd["dry"]:
                    bump(probe, "dry_run_ok")
                    if populated:
                        bump(probe, "dry_over_populated_output")
                else:
                    v2, headers = check_outputs(world, plan, cmd, out_rel,
                                                {k: x[:4] for k, x in before.items()}, {k: x[:4] for k, x in after.items()},
                                                prior)
                    viols += v2
                    if headers:
                        bump(probe, "real_run_ok_wrote_symbol")
                        if pkg.get("reexport_subs") and pkg.get("reexport_via") == "subpackage" and pkg["subs"]:
                            bump(probe, "reexport_via_subpackage_real_ok")
                        bump(probe, "real_ok_emit_" + cmd["emit"])
                        if cmd["recursive"]:
                            bump(probe, "recursive_real_ok")
                    if populated:
                        bump(probe, "merge_into_existing_output")
                    if cmd["bl"] and cmd["recursive"]:
                        bump(probe, "blacklist_excluded_subpackage")
            if cmd["sa_sub"] and cmd["emit"].startswith("sqlalchemy"):
                bump(probe, "sa_submodule_requested")
            for x in viols:
                x["detail"] = "cmd %d %s: %s" % (ci, " ".join(op["argv"]), x["detail"])
            res.violations += viols
            ccmd = dict(cmd)
            if fault:
                ccmd["fault"] = dict(fault, kind=fault["kind"])
            concrete["cmds"].append(ccmd)
            wd = SimWorld.digest(after)
            stats["world_states"].append(wd)
            history.append({"argv": op["argv"], "outcome": o.brief(),
                            "events": [(e["kind"], e["path"] if e.get("inside") else "<outside>") for e in o.events if "io" in e],
                            "world": wd})
    finally:
        try:
            sys.path.remove(src_path)
        except ValueError:
            pass
        _purge_pkg(pkg)
        world.destroy()
    concrete["enum"] = bool(plan.get("enum")) if enumerate_all is None else bool(enumerate_all)
    res.trace = {"kind": "c20-plan", "plan": concrete,
                 "files": {k: v for k, v in files.items()},
                 "history": [{"argv": h["argv"], "outcome": h["outcome"]} for h in history]}
    res.digest = digest_of([(h["argv"], h["outcome"].get("kind"), h["outcome"].get("exc"), h["events"], h["world"])
                            for h in history])
    res.nontrivial = completed > 0 and any(probe.values())
    res.sample = {"package_files": sorted(files), "history": [{"argv": h["argv"], "outcome": h["outcome"],
                                                                "seam_calls": len(h["events"])} for h in history]}
    return res


def _enumerate(world, plan, cmd, op, out_rel, cp, reh_events, stats, bump):
    """Every mutating seam call of this command faulted once per kind; read calls with a stride."""
    viols = []
    stride = max(1, int(plan.get("enum_stride", 1)))
    mut = [e for e in reh_events if e["kind"] in seams.MUTATING]
    reads = [e for e in reh_events if e["kind"] not in seams.MUTATING]
    reads = reads[::max(1, len(reads) // 6 or 1)] if reads else []
    targets = []
    for i, e in enumerate(mut):
        if i % stride:
            continue
        for kind in ("err", "crash"):
            targets.append((e, kind))
        if e["kind"] == "close_w" and e.get("nbytes", 0) > 1:
            targets.append((e, "tear"))
    for e in reads:
        targets.append((e, "err"))
    cap = plan.get("enum_cap")
    if cap and len(targets) > cap:
        # deterministic thinning: keep a regular sample that always contains the first and last call
        step = len(targets) / float(cap)
        targets = [targets[min(int(i * step), len(targets) - 1)] for i in range(cap - 1)] + [targets[-1]]
    pkg = plan["pkg"]
    for e, kind in targets:
        world.restore(cp)
        f = {"seam": "io", "at": e["io"], "kind": "crash" if kind == "crash" else "err"}
        if kind != "crash":
            f["errno"] = seams.ERRNOS_FOR.get(e["kind"], ("EIO",))[0]
            if e["kind"] == "close_w":
                f["keep"] = 0.5 if kind == "tear" else 0.0
        before = world.snapshot(with_mtime=True)
        _purge_pkg(pkg)
        o = ops.invoke(world, op, faults=[f], black=plan.get("black", True))
        after = world.snapshot(with_mtime=True)
        stats["evaluations"] += 1
        bump(stats, "enumerated_faults")
        for fr in o.fired:
            bump(stats["faults_fired"], "%s@%s" % (fr["kind"] if fr["kind"] == "crash" else fr.get("errno", "err"), fr["event"]))
            stats["fault_sites"].append("%s:%s" % (fr["event"], fr.get("site")))
            bump(stats["probes"], "fault_fired_in_dry_run" if cmd["dry"] else "fault_fired_in_real_run")
            if fr["kind"] == "crash":
                bump(stats["probes"], "crash_fired")
        if not o.fired:
            bump(stats, "enumerated_not_fired")
        bump(stats["outcomes"], "enum_%s:%s" % ("dry" if cmd["dry"] else "real", o.kind))
        vs = check_effects(world, cmd, out_rel, before, after, o.events, o.ok)
        for x in vs:
            x["detail"] = "enumerated fault %s at seam call %d (%s %s): %s" % (kind, e["io"], e["kind"], e["path"], x["detail"])
            x["sig"] = dict(x["sig"], enumerated=True)
            x["enum_fault"] = f
        viols += vs
    return viols


# ------------------------------------------------------------------------------ runner interface
def plan(tier, seed, scale=1.0):
    n_workers = 16
    per = int({"quick": 28, "thorough": 220}[tier] * scale)
    return [{"seed": seed * 1000 + w, "n": per, "tier": tier} for w in range(n_workers)]


def work(task):
    known = load_known(ID)
    strat = plans(enum_every=5 if task["tier"] == "quick" else 3, enum_cap=30 if task["tier"] == "quick" else 90)
    out = explore(strat, simulate, task["seed"], task["n"], known, batch=14 if task["tier"] == "quick" else 50)
    for v in out["violations"]:
        if v.get("final"):
            v["trace"] = _drop_commands(v)
    return out


def _drop_commands(v):
    """Minimise a concrete (enumerated-fault) history: drop earlier commands while the clause still fails."""
    tr = v["trace"]
    p = tr["plan"]
    i = 0
    while len(p["cmds"]) > 1 and i < len(p["cmds"]) - 1:
        q = dict(p, cmds=p["cmds"][:i] + p["cmds"][i + 1:])
        if any(x["clause"] == v["clause"] for x in simulate(q).violations):
            p = q
        else:
            i += 1
    return dict(tr, plan=p)


def replay(trace):
    p = trace["plan"]
    res = simulate(p)
    return res.violations
