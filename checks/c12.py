"""C12 — sync makes every target equivalent to the truth, then is a no-op.

Project machine (DESIGN.md §3 C12): three files (class / function-or-method / argparse function) whose
named targets start present-and-different, absent from an existing file, in an empty file, or in a missing
file; histories of `sync --truth X` commands, user edits, I/O faults and crashes with user recovery,
restarts; clauses B1-B7.
"""
import ast
import re

from hypothesis import strategies as st

from cddsim import gen, hyp, ops, proc, seams
from cddsim.hyp import SimResult, digest_of, explore
from cddsim.runner import load_known
from cddsim.world import SimWorld

ID = "C12"
LEVEL = "fault_enumeration"
RULE = ("Hypothesis-drawn projects: class file, function/method file, argparse file; each named target present with its "
        "own interface, absent from an existing file, in an empty file, or file missing; unrelated surrounding "
        "definitions. Histories of 1..5 steps: sync --truth X (the truth's target present) through the real CLI, user "
        "edit of one target, restart; ~50% of histories carry one I/O fault or crash at a seam call of a sync, followed "
        "by a seeded user recovery (delete / empty / restore torn files) and the convergence clause B7. After every "
        "fault-free sync: B1 files parse, B2 each target parsed by cdd's matching parser equals the truth's parse "
        "(names, order, types, defaults, descriptions up to whitespace/full stop) outside the listed known-finding "
        "regions, B3 truth interface unchanged, B4 AST outside targets unchanged, B5 an identical second sync is "
        "byte-identical, B6 nothing but the listed files is created or written (asserted always). Non-trivial = a sync "
        "completed and changed at least one file; distinct = distinct outcome digest.")
ASSUMPTIONS = [
    "interfaces come from the common representable domain (int/float/str/bool/Optional/Literal, suffix defaults, "
    "descriptions free of type-hint trigger words)",
    "a function or argparse target that exists and differs is left untouched by sync: listed known finding F-C12-1, "
    "that region is excluded from B2/B7",
    "argparse targets: parameters without an explicit non-None default are compared on name/order/description only "
    "(known finding F-C12-4)",
    "faults are one-shot; torn non-empty files are outside the property's domain until the simulated user recovers them",
]
REAL = ["cdd (working tree) via cdd.__main__.main", "cdd's own parsers as the 'when parsed' reader of B2/B3", "black",
        "tmpfs file system"]
STUBBED = ["durability of write-mode files (SimFile)", "OS errors", "process crash (SimCrash)", "the user (edits, recovery)"]
KINDS = ("class", "function", "argparse_function")
DEFAULT_FILES = {"class": "cls.py", "function": "fn.py", "argparse_function": "ap.py"}
FILES = dict(DEFAULT_FILES)     # per-plan: `_set_files(project)` at the start of simulate(), reset at its end


def _shared(p):
    """One file listed for two roles (class and argparse function live in both.py) — only when both are in a file."""
    return bool(p.get("shared")) and all(p["states"][k] in ("present", "absent") for k in ("class", "argparse_function"))


def _set_files(p):
    FILES.clear()
    FILES.update(DEFAULT_FILES)
    if p is not None and _shared(p):
        FILES["class"] = FILES["argparse_function"] = "both.py"
TYPES = gen.SIMPLE_TYPES + ("Optional[int]", "Optional[str]", "Literal['a', 'b']", "Optional[bool]", "Optional[float]")


def probes():
    return ["sync_ok", "class_target_rewritten", "target_appended_to_existing_file", "empty_file_filled",
            "missing_file_created", "second_sync_noop_checked", "truth_class", "truth_function", "truth_argparse",
            "fault_fired", "crash_fired", "recovery_delete", "recovery_empty", "recovery_restore", "convergence_checked",
            "user_edit", "restart", "method_target", "black_absent", "decoy_same_name_nested", "class_target_with_unannotated_attribute", "third_sync_noop_checked",
            "one_file_listed_for_two_roles", "truth_read_checked_against_spec", "file_with_form_feed_line"]


# ------------------------------------------------------------------------------------ generators
@st.composite
def project(draw):
    specs = {}
    for k in KINDS:
        specs[k] = draw(gen.interface_spec(name="x", min_params=1, max_params=4, types=TYPES, returns=False,
                                             optional_needs_default=True))
    truth_first = draw(st.sampled_from(KINDS))
    states = {}
    for k in KINDS:
        states[k] = draw(st.sampled_from(("present", "present", "absent", "empty", "missing")))
    return {"specs": specs, "states": states, "method": draw(st.integers(0, 2)) == 2,
            "class_name": draw(st.sampled_from(("Config", "Settings", "Options"))),
            "func_name": draw(st.sampled_from(("compute", "build", "run_job"))),
            "first_truth": truth_first, "extras": draw(st.booleans()),
            "no_trailing_newline": draw(st.integers(0, 7)) == 7,
            # a surrounding definition that *contains* something named like the target (nested class / method of
            # another class): unrelated code by the statement, a trap for name-only lookups
            "decoy": draw(st.integers(0, 3)) == 3,
            "shared": draw(st.integers(0, 5)) == 5,
            "legacy_attr": draw(st.integers(0, 4)) == 4,
            # how an argparse file spells `choices=`: tuple (most common), list or set literal
            "choices_form": draw(st.sampled_from(("tuple", "tuple", "list", "set"))),
            "formfeed": draw(st.integers(0, 5)) == 5}


@st.composite
def step(draw):
    kind = draw(st.sampled_from(("sync", "sync", "sync", "edit", "restart")))
    if kind == "sync":
        s = {"op": "sync", "truth": draw(st.sampled_from(KINDS)), "wrap": draw(st.booleans()), "fault": None,
             "recovery": draw(st.sampled_from(("restore", "delete", "empty")))}
        if draw(st.integers(0, 9)) >= 5:
            s["fault"] = {"frac": draw(st.floats(0, 0.999)), "kind": draw(st.sampled_from(("err", "err", "crash"))),
                          "target": draw(st.sampled_from(("mut", "mut", "any"))), "errno_i": draw(st.integers(0, 2)),
                          "keep": draw(st.sampled_from((0.0, 0.5, 0.99)))}
        return s
    if kind == "edit":
        return {"op": "edit", "target": draw(st.sampled_from(KINDS)),
                "spec": draw(gen.interface_spec(name="x", min_params=1, max_params=4, types=TYPES, returns=False,
                                             optional_needs_default=True))}
    return {"op": "restart"}


@st.composite
def plans(draw, enum_every=5):
    p = draw(project())
    steps = [{"op": "sync", "truth": p["first_truth"], "wrap": draw(st.booleans()), "fault": None, "recovery": "restore"}]
    steps += draw(st.lists(step(), min_size=0, max_size=4))
    return {"project": p, "steps": steps, "black": draw(st.sampled_from((True, True, True, False))),
            "enum": draw(st.integers(0, enum_every - 1)) == enum_every - 1 if enum_every else False}


# -------------------------------------------------------------------------------------- renderer
HELPER = 'def unrelated_helper(item):\n    """Unrelated helper."""\n    return [item, LIMIT]\n'


def target_name(p, kind):
    if kind == "class":
        return p["class_name"]
    if kind == "function":
        return ("Holder." if p["method"] else "") + p["func_name"]
    return "set_cli_args"


def render_target(p, kind, spec):
    if kind == "class":
        # sometimes the class also holds a stale attribute WITHOUT annotation (`legacy = 1`): part of the "arbitrary
        # interface" a target may initially have; a sync from another truth must not leave it behind
        return gen.render_class(dict(spec, name=p["class_name"]),
                                extra_body=("legacy = 1",) if p.get("legacy_attr") else ())
    if kind == "function":
        if p["method"]:
            return 'class Holder(object):\n    """Holder of the method."""\n\n    marker = 1\n\n' + \
                gen.render_function(dict(spec, name=p["func_name"]), style="rest", annotate=False, indent="    ",
                                    first="self", body=["print(LIMIT)"])
        return gen.render_function(dict(spec, name=p["func_name"]), style="rest", annotate=False, body=["print(LIMIT)"])
    return gen.render_argparse(dict(spec, name="set_cli_args", choices_form=p.get("choices_form")))


def render_file(p, kind, spec, state):
    """Text of one listed file (None = missing)."""
    if state == "missing":
        return None
    if state == "empty":
        return ""
    head = "from typing import Literal, Optional\n\nLIMIT = 10\n\n\n"
    if p.get("formfeed"):
        # a page-break line (form feed, as in GNU-style sources) between the sections of the file: white space to Python,
        # a line break to str.splitlines but not to the parser's line numbering
        head = "from typing import Literal, Optional\n\nLIMIT = 10\n\x0c\n\n"
    parts = [head]
    if p["extras"]:
        parts.append(HELPER + "\n\n")
    if p.get("decoy"):
        leaf = target_name(p, kind).split(".")[-1]
        if kind == "class":
            parts.append('class Registry(object):\n    """Registry with an inner class of the same name."""\n\n'
                         '    class %s(object):\n        """Inner."""\n\n        frozen: bool = True\n\n\n' % leaf)
        else:
            parts.append('class Registry(object):\n    """Registry with a method of the same name."""\n\n'
                         '    def %s(self, thing=LIMIT):\n        """Inner."""\n        print(thing)\n\n\n' % leaf)
    if state == "present":
        parts.append(render_target(p, kind, spec))
    elif kind == "function" and p["method"]:
        # the class that should hold the method exists, the method does not
        parts.append('class Holder(object):\n    """Holder of the method."""\n\n    marker = 1\n')
    if not p["extras"] and state == "absent" and not (kind == "function" and p["method"]):
        parts.append("OTHER = LIMIT + 1\n")
    text = "".join(parts)
    if p.get("no_trailing_newline") and state == "absent" and not _shared(p):
        text = text.rstrip("\n")
    return text


def sync_argv(p, truth, wrap):
    argv = ["sync", "--class", "{ROOT}/" + FILES["class"], "--class-name", target_name(p, "class"),
            "--function", "{ROOT}/" + FILES["function"], "--function-name", target_name(p, "function"),
            "--argparse-function", "{ROOT}/" + FILES["argparse_function"], "--argparse-function-name", "set_cli_args",
            "--truth", truth]
    if not wrap:
        argv.append("--no-word-wrap")
    return argv


# ---------------------------------------------------------------------------------------- reader
def cdd_parse(text, kind, name):
    """cdd's matching parser applied to the named target ('when parsed'); None if target absent."""
    from cdd.shared.ast_utils import find_in_ast, get_function_type
    from cdd.shared.source_transformer import ast_parse
    import cdd.argparse_function.parse
    import cdd.class_.parse
    import cdd.function.parse
    mod = ast_parse(text, filename="<target>")
    search = name.split(".")
    node = find_in_ast(search, mod)
    if node is None:
        return None
    if kind == "class":
        if not isinstance(node, ast.ClassDef):
            return None
        return cdd.class_.parse.class_(node, class_name=search[-1])
    if not isinstance(node, ast.FunctionDef):
        return None
    if kind == "function":
        return cdd.function.parse.function(node, function_type=get_function_type(node), function_name=search[-1])
    return cdd.argparse_function.parse.argparse_ast(node, function_type=get_function_type(node), function_name=search[-1])


_WS = re.compile(r"\s+")


def norm_doc(d):
    d = _WS.sub(" ", (d or "")).strip()
    return d[:-1].rstrip() if d.endswith(".") else d


def iface_of(ir):
    """(name, typ, default-repr, doc) per parameter, in order."""
    out = []
    for n, p in (ir.get("params") or {}).items():
        out.append((n, p.get("typ"), repr(p["default"]) if "default" in p else "<absent>", norm_doc(p.get("doc"))))
    return out


NONE_MARKS = ("'```(None)```'", "'```None```'", "None")


def compare_iface(truth, got, kind):
    """(differences, lossy): differences between the truth's interface and a target's ([] if equivalent).
    `lossy` names the listed systematic conversion when EVERY difference belongs to it, else None:
      argparse_default_cells  (F-C12-4) argparse target: type/default of a parameter whose truth has no explicit
                              non-None default
      required_param_gets_none_default (F-C12-7) function target created by sync: a parameter without default in the
                              truth reads back with default None
    """
    diffs = []
    if [t[0] for t in truth] != [g[0] for g in got]:
        return ["parameter names/order: truth %s, target %s" % ([t[0] for t in truth], [g[0] for g in got])], None
    classes = set()
    for t, g in zip(truth, got):
        ap_lossy = kind == "argparse_function" and (t[2] == "<absent>" or t[2] in NONE_MARKS)
        if t[3] != g[3]:
            diffs.append("description of %s: %r vs %r" % (t[0], t[3], g[3]))
            classes.add("other")
        if t[1] != g[1]:
            diffs.append("type of %s: %r vs %r" % (t[0], t[1], g[1]))
            classes.add("argparse_default_cells" if ap_lossy else "other")
        if t[2] != g[2]:
            diffs.append("default of %s: %s vs %s" % (t[0], t[2], g[2]))
            if ap_lossy:
                classes.add("argparse_default_cells")
            elif kind == "function" and t[2] == "<absent>" and g[2] in NONE_MARKS:
                classes.add("required_param_gets_none_default")
            else:
                classes.add("other")
    return diffs, (sorted(classes)[0] if len(classes) == 1 and "other" not in classes else None)


def in_domain(iface):
    """The truth must itself be in the common representable domain: every parameter typed, a None default only on
    Optional types.  (A torn write that still parses can leave e.g. an attribute without annotation behind.)"""
    return all(t[1] and not (t[2] in NONE_MARKS and not t[1].startswith("Optional[")) for t in iface)


def outside_dump(text, kind, name):
    """ast.dump of the module with the named target(s) removed (docstrings compared up to whitespace).  `name` may be
    a list: every named target living in this file is removed (one file can be listed for two roles)."""
    mod = ast.parse(text)
    for one in ([name] if isinstance(name, str) else list(name)):
        parts = one.split(".")

        def strip(body, depth, parts=parts):
            out = []
            for node in body:
                if getattr(node, "name", None) == parts[depth]:
                    if depth == len(parts) - 1:
                        continue
                    node.body = strip(node.body, depth + 1) or [ast.Pass()]
                out.append(node)
            return out

        mod.body = strip(mod.body, 0)
    for node in ast.walk(mod):
        if isinstance(node, ast.Constant) and isinstance(node.value, str):
            node.value = _WS.sub(" ", node.value).strip()
    return ast.dump(mod)


# ------------------------------------------------------------------------------------ simulation
_warm = [False]


def warm_up():
    if not _warm[0]:
        proc.import_all()
        _warm[0] = True


def _resolve_fault(f, io_events):
    if f is None or not io_events:
        return None
    if "at" in f:
        ev = next((e for e in io_events if e["io"] == f["at"]), None)
        if ev is None:
            return None
        at = f["at"]
    else:
        cands = [e for e in io_events if e["kind"] in seams.MUTATING] if f.get("target") == "mut" else io_events
        cands = cands or io_events
        ev = cands[min(int(f["frac"] * len(cands)), len(cands) - 1)]
        at = ev["io"]
    out = {"seam": "io", "at": at, "kind": f["kind"]}
    if f["kind"] == "err":
        errs = seams.ERRNOS_FOR.get(ev["kind"], ("EIO",))
        out["errno"] = f.get("errno") or errs[f.get("errno_i", 0) % len(errs)]
        if ev["kind"] == "close_w":
            out["keep"] = f.get("keep", 0.0)
    return out


def simulate(plan):
    warm_up()
    res = SimResult()
    res.plan_digest = digest_of(plan)
    stats = {"commands": 0, "outcomes": {}, "faults_fired": {}, "fault_sites": [], "probes": {}, "world_states": [],
             "evaluations": 0}
    res.stats = stats
    probe = stats["probes"]

    def bump(d, k, n=1):
        d[k] = d.get(k, 0) + n

    p = plan["project"]
    black = plan.get("black", True) or _shared(p)   # (a file listed for two roles is explored with black present only)
    if not black:
        bump(probe, "black_absent")
    if p["method"]:
        bump(probe, "method_target")
    if p.get("decoy"):
        bump(probe, "decoy_same_name_nested")
    if p.get("formfeed"):
        bump(probe, "file_with_form_feed_line")
    if p.get("legacy_attr") and p["states"]["class"] == "present":
        bump(probe, "class_target_with_unannotated_attribute")
    world = SimWorld(tag="c12")
    _set_files(p)
    files = {}
    for k in KINDS:
        if _shared(p) and k == "argparse_function":
            continue
        text = render_file(p, k, p["specs"][k], p["states"][k])
        if _shared(p) and k == "class" and p["states"]["argparse_function"] == "present":
            text = text.rstrip("\n") + "\n\n\n" + render_target(p, "argparse_function", p["specs"]["argparse_function"])
        if text is not None:
            files[FILES[k]] = text
    if _shared(p):
        bump(probe, "one_file_listed_for_two_roles")
    files["README.txt"] = "unrelated file in the project directory\n"
    world.write_files(files)
    listed = set(FILES.values())
    history = []
    concrete = dict(plan, steps=[])
    changed_any = False
    sync_done = False
    # model: which interface each target is expected to hold (None = unknown after a failed command)
    try:
        for si, stp in enumerate(plan["steps"]):
            stp = dict(stp)
            if stp["op"] == "restart":
                proc.purge(("cdd",))
                _warm[0] = False
                warm_up()
                bump(probe, "restart")
                concrete["steps"].append(stp)
                history.append({"op": "restart"})
                continue
            if stp["op"] == "edit":
                k = stp["target"]
                if _shared(p) and k in ("class", "argparse_function"):
                    concrete["steps"].append(stp)
                    continue
                cur = world.read(FILES[k])
                if cur is None or not _parses(cur):
                    concrete["steps"].append(stp)
                    continue
                # the simulated user re-writes that file with a new interface for the target (own renderer)
                world.write_files({FILES[k]: render_file(p, k, stp["spec"], "present")})
                bump(probe, "user_edit")
                concrete["steps"].append(stp)
                history.append({"op": "edit", "target": k})
                continue
            truth = stp["truth"]
            tfile = FILES[truth]
            ttext = world.read(tfile)
            if ttext is None or not _parses(ttext) or _safe_parse(ttext, truth, target_name(p, truth)) is None:
                # the truth's target must exist: outside the property's domain, skip the command
                concrete["steps"].append(dict(stp, skipped=True))
                continue
            op = {"cmd": "cli", "argv": sync_argv(p, truth, stp.get("wrap", True))}
            pre_texts = {FILES[k]: world.read(FILES[k]) for k in KINDS}
            if any(t is not None and t != "" and not _parses(t) for t in pre_texts.values()):
                concrete["steps"].append(dict(stp, skipped=True))
                continue  # a torn file is outside the stated domain (recovery failed to run?)
            cp = world.checkpoint()
            fault = None
            if _shared(p):
                stp["fault"] = None    # a file listed for two roles is explored fault-free only (torn two-target files
                #                        multiply the known append-path findings without adding a new question)
            if stp.get("fault") and not hyp.SHRINKING[0] or stp.get("fault") and "at" in stp["fault"]:
                reh = ops.invoke(world, op, black=black)
                world.restore(cp)
                fault = _resolve_fault(stp["fault"], reh.io_events())
            if plan.get("enum") and si == len(plan["steps"]) - 1 and not hyp.SHRINKING[0] and not _shared(p):
                reh = ops.invoke(world, op, black=black)
                world.restore(cp)
                if reh.ok:
                    res.violations += _enumerate(world, plan, p, op, truth, tfile, cp, pre_texts, reh.io_events(), listed,
                                                 black, stats, probe, bump, si)
                    world.restore(cp)
            before = world.snapshot()
            o = ops.invoke(world, op, faults=[fault] if fault else None, black=black)
            after = world.snapshot()
            stats["commands"] += 1
            stats["evaluations"] += 1
            bump(stats["outcomes"], "sync:" + o.kind)
            bump(probe, "truth_" + {"class": "class", "function": "function", "argparse_function": "argparse"}[truth])
            for f in o.fired:
                bump(stats["faults_fired"], "%s@%s" % (f["kind"] if f["kind"] == "crash" else f.get("errno", "err"), f["event"]))
                stats["fault_sites"].append("%s:%s" % (f["event"], f.get("site")))
                bump(probe, "fault_fired")
                if f["kind"] == "crash":
                    bump(probe, "crash_fired")
            viols = check_b6(before, after, o.events, listed)
            rec = {"op": "sync", "argv": op["argv"], "outcome": o.brief(), "world": SimWorld.digest(after), "key": o.key()}
            if o.ok and not o.fired:
                sync_done = True
                bump(probe, "sync_ok")
                post_texts = {FILES[k]: world.read(FILES[k]) for k in KINDS}
                if post_texts != pre_texts:
                    changed_any = True
                viols += check_sync(p, truth, pre_texts, post_texts, probe, bump, black, specs=_user_specs(plan, truth))
                # B5: an identical second sync is a no-op
                if all(t is not None and _parses(t) for t in post_texts.values()):
                    o2 = ops.invoke(world, op, black=black)
                    stats["commands"] += 1
                    bump(stats["outcomes"], "sync_again:" + o2.kind)
                    bump(probe, "second_sync_noop_checked")
                    again = {FILES[k]: world.read(FILES[k]) for k in KINDS}
                    if o2.ok and again != post_texts:
                        ch = sorted(f for f in again if again[f] != post_texts[f])
                        for f_ in ch:
                            viols.append({"clause": "B5", "detail": "second identical sync changed %s" % f_,
                                          "sig": _b5_sig(p, pre_texts, post_texts, again, f_)})
                    elif not o2.ok:
                        viols.append({"clause": "B5", "detail": "second identical sync failed: %s %s" % (
                            o2.exc_type, (o2.exc_msg or "")[:120]),
                            "sig": {"what": "second_sync_raises", "exc": o2.exc_type, "truth": truth}})
                    viols += check_b6(after, world.snapshot(), o2.events, listed)
                    if o2.ok and again == post_texts:
                        # the state after the second run is again "after a sync --truth X": a further identical run
                        # must be a no-op as well (catches alternation with period > 1)
                        snap2 = world.snapshot()
                        o3 = ops.invoke(world, op, black=black)
                        stats["commands"] += 1
                        bump(probe, "third_sync_noop_checked")
                        third = {FILES[k]: world.read(FILES[k]) for k in KINDS}
                        if o3.ok and third != again:
                            for f_ in sorted(f for f in third if third[f] != again[f]):
                                viols.append({"clause": "B5", "detail": "third identical sync changed %s (the second did not)" % f_,
                                              "sig": dict(_b5_sig(p, pre_texts, again, third, f_), run=3)})
                        elif not o3.ok:
                            viols.append({"clause": "B5", "detail": "third identical sync failed: %s %s" % (
                                o3.exc_type, (o3.exc_msg or "")[:120]),
                                "sig": {"what": "third_sync_raises", "exc": o3.exc_type, "truth": truth}})
                        viols += check_b6(snap2, world.snapshot(), o3.events, listed)
            elif o.fired:
                viols += _recover_and_converge(world, p, op, truth, tfile, pre_texts, stp.get("recovery", "restore"), black,
                                               stats, probe, bump)
            elif not o.ok:
                viols.append({"clause": "B1", "detail": "fault-free sync failed: %s: %s (at %s)" % (
                    o.exc_type, (o.exc_msg or "")[:200], o.exc_site),
                    "sig": {"what": "sync_raises", "exc": o.exc_type, "site": o.exc_site,
                            "states": _states_now(pre_texts, p)}})
            for x in viols:
                x["detail"] = "step %d `%s`: %s" % (si, " ".join(op["argv"][-3:]), x["detail"])
            res.violations += viols
            cstp = dict(stp)
            if fault:
                cstp["fault"] = fault
            concrete["steps"].append(cstp)
            history.append(rec)
            stats["world_states"].append(rec["world"])
    finally:
        world.destroy()
        _set_files(None)
    res.trace = {"kind": "c12-plan", "plan": concrete, "files": files, "history": history}
    res.digest = digest_of([[h.get("op"), h.get("key"), h.get("world")] for h in history])
    res.nontrivial = sync_done and changed_any
    res.sample = {"files": {k: v[:400] for k, v in files.items()}, "history": history}
    return res


def _b5_sig(p, pre, post, again, f):
    """Classify a failed idempotence check for one file: is the change formatting only, and is it one of the two
    listed causes (the first sync appended the target to an existing file; a method target that sync could not
    place inside its class)."""
    states = _states_now(pre, p)
    by_file = {FILES[k]: k for k in KINDS}
    fmt_only = _same_ast(post[f], again[f])
    method_lost = f == FILES["function"] and bool(p["method"]) and _safe_parse(
        post[f] or "", "function", target_name(p, "function")) is None
    return {"what": "not_idempotent", "file": f, "formatting_only": fmt_only,
            # appended = the target was absent from an existing file; or the file is listed for two roles and at least one
            # of its targets was not there (absent / empty / missing file): the second role always appends
            "target_was_appended_by_first_sync": fmt_only and (
                any(states[k_] == "absent" for k_ in KINDS if FILES[k_] == f)
                or (sum(1 for k_ in KINDS if FILES[k_] == f) >= 2
                    and any(states[k_] != "present" for k_ in KINDS if FILES[k_] == f))),
            "method_target_not_in_class": method_lost}


def _target_dump(text, name):
    """ast.dump of the named target itself (None if absent): 'left untouched' is judged on the target, not on the file
    (a file listed for two roles changes when the other target is rewritten)."""
    try:
        body = ast.parse(text).body
    except (SyntaxError, ValueError, TypeError):
        return None
    node = None
    for part in name.split("."):
        node = next((n for n in body if getattr(n, "name", None) == part), None)
        if node is None:
            return None
        body = getattr(node, "body", [])
    return ast.dump(node)


def _same_ast(a, b):
    try:
        return ast.dump(ast.parse(a)) == ast.dump(ast.parse(b))
    except (SyntaxError, ValueError, TypeError):
        return False


def _recover_and_converge(world, p, op, truth, tfile, pre_texts, how, black, stats, probe, bump):
    """After a faulted sync: the simulated user brings torn files back into the property's domain (delete / empty /
    restore), then B7: one sync establishes B1-B4 and the next one B5."""
    viols = []
    # B4 under failure: a sync that failed (error or crash) may leave a listed file torn — that is what the fault
    # models, and a torn prefix may even parse — but it never removes a listed file that existed
    for k in KINDS:
        prev, now = pre_texts[FILES[k]], world.read(FILES[k])
        if prev is None:
            continue
        if now is None:
            viols.append({"clause": "B4", "detail": "the failed sync removed the listed file %s (it existed before)" % FILES[k],
                          "sig": {"what": "listed_file_removed_by_failed_sync", "kind": k}})
    for k in KINDS:
        t = world.read(FILES[k])
        if t is not None and t != "" and not _parses(t):
            bump(probe, "recovery_" + how)
            if how == "delete":
                world.remove(FILES[k])
            elif how == "empty":
                world.write_files({FILES[k]: ""})
            else:
                prev = pre_texts[FILES[k]]
                if prev is None:
                    world.remove(FILES[k])
                else:
                    world.write_files({FILES[k]: prev})
    ttext2 = world.read(tfile)
    if ttext2 is not None and _parses(ttext2) and _safe_parse(ttext2, truth, target_name(p, truth)) is not None:
        pre2 = {FILES[k]: world.read(FILES[k]) for k in KINDS}
        o3 = ops.invoke(world, op, black=black)
        stats["commands"] += 1
        bump(stats["outcomes"], "sync_after_recovery:" + o3.kind)
        bump(probe, "convergence_checked")
        if o3.ok:
            post3 = {FILES[k]: world.read(FILES[k]) for k in KINDS}
            v7 = check_sync(p, truth, pre2, post3, probe, bump, black)
            o4 = ops.invoke(world, op, black=black)
            stats["commands"] += 1
            again = {FILES[k]: world.read(FILES[k]) for k in KINDS}
            if o4.ok and again != post3:
                for f_ in sorted(f for f in again if again[f] != post3[f]):
                    v7.append({"clause": "B5", "detail": "second sync after recovery changed %s" % f_,
                               "sig": _b5_sig(p, pre2, post3, again, f_)})
            for x in v7:
                x["detail"] = "[B7 convergence after fault+recovery] " + x["detail"]
            viols += v7
        else:
            viols.append({"clause": "B7", "detail": "sync after recovery failed: %s %s (at %s)" % (
                o3.exc_type, (o3.exc_msg or "")[:160], o3.exc_site),
                "sig": {"what": "sync_after_recovery_raises", "exc": o3.exc_type, "site": o3.exc_site}})
    return viols


def _enumerate(world, plan, p, op, truth, tfile, cp, pre_texts, reh_events, listed, black, stats, probe, bump, si):
    """Every seam call of this sync faulted once per kind (error, crash, torn close): B6 on the resulting world, then
    recovery and the convergence clause B7.  Violations are emitted concrete (the plan with that one fault)."""
    out = []
    targets = []
    for e in reh_events:
        for kind in ("err", "crash"):
            targets.append((e, kind))
        if e["kind"] == "close_w" and e.get("nbytes", 0) > 1:
            targets.append((e, "tear"))
    for ti, (e, kind) in enumerate(targets):
        world.restore(cp)
        f = {"seam": "io", "at": e["io"], "kind": "crash" if kind == "crash" else "err"}
        if kind != "crash":
            f["errno"] = seams.ERRNOS_FOR.get(e["kind"], ("EIO",))[0]
            if e["kind"] == "close_w":
                f["keep"] = 0.5 if kind == "tear" else 0.0
        before = world.snapshot()
        o = ops.invoke(world, op, faults=[f], black=black)
        after = world.snapshot()
        stats["evaluations"] += 1
        bump(stats, "enumerated_faults")
        for fr in o.fired:
            bump(stats["faults_fired"], "%s@%s" % (fr["kind"] if fr["kind"] == "crash" else fr.get("errno", "err"), fr["event"]))
            stats["fault_sites"].append("%s:%s" % (fr["event"], fr.get("site")))
            bump(probe, "fault_fired")
            if fr["kind"] == "crash":
                bump(probe, "crash_fired")
        vs = check_b6(before, after, o.events, listed)
        if o.fired:
            vs += _recover_and_converge(world, p, op, truth, tfile, pre_texts, ("restore", "delete", "empty")[ti % 3], black,
                                        stats, probe, bump)
        known = load_known(ID)
        from cddsim.runner import match_known
        for x in vs:
            if match_known(known, x) is not None:
                continue
            p2 = dict(plan, enum=False)
            p2["steps"] = [dict(s_) for s_ in plan["steps"][:si + 1]]
            p2["steps"][-1]["fault"] = f
            p2["steps"][-1]["recovery"] = ("restore", "delete", "empty")[ti % 3]
            x["detail"] = "enumerated fault %s at seam call %d (%s %s): %s" % (kind, e["io"], e["kind"], e["path"], x["detail"])
            x["final"] = True
            x["trace"] = {"kind": "c12-plan", "plan": p2}
            out.append(x)
    return out


def _parses(text):
    try:
        ast.parse(text)
        return True
    except (SyntaxError, ValueError):
        return False


def _safe_parse(text, kind, name):
    try:
        return cdd_parse(text, kind, name)
    except BaseException:
        return None


def _user_specs(plan, kind):
    """Every interface the simulated user ever writes for this target in this plan."""
    return [plan["project"]["specs"][kind]] + [s["spec"] for s in plan["steps"] if s.get("op") == "edit" and s.get("target") == kind]


def _states_now(texts, p):
    out = {}
    for k in KINDS:
        t = texts[FILES[k]]
        if t is None:
            out[k] = "missing"
        elif t == "":
            out[k] = "empty"
        else:
            out[k] = "present" if _safe_parse(t, k, target_name(p, k)) is not None else "absent"
    return out


def check_b6(before, after, events, listed):
    created, modified, deleted = SimWorld.diff(before, after)
    bad = [x for x in created + modified + deleted if x not in listed]
    v = []
    if bad:
        v.append({"clause": "B6", "detail": "paths other than the listed files changed: %s" % bad[:5],
                  "sig": {"what": "other_path_changed"}})
    for e in events:
        if e["kind"] in ("open_w", "open_raw_w") and (not e.get("inside") or e["path"] not in listed):
            v.append({"clause": "B6", "detail": "write-mode open of %r at %s" % (e["path"], e.get("site")),
                      "sig": {"what": "other_path_opened_for_writing", "site": e.get("site")}})
            break
    return v


def check_sync(p, truth, pre, post, probe, bump, black, specs=()):
    """B1-B4 after a fault-free sync that returned."""
    v = []
    states = _states_now(pre, p)
    tname = target_name(p, truth)
    truth_ir = cdd_parse(pre[FILES[truth]], truth, tname)
    truth_if = iface_of(truth_ir)
    v += check_truth_read(p, truth, pre[FILES[truth]], truth_if, specs, probe, bump)
    for k in KINDS:
        f = FILES[k]
        text = post[f]
        if text is None:
            v.append({"clause": "B2", "detail": "%s still missing after sync" % f,
                      "sig": {"what": "file_not_created", "kind": k, "state": states[k]}})
            continue
        if not _parses(text):
            v.append({"clause": "B1", "detail": "%s does not parse after sync" % f,
                      "sig": {"what": "unparsable", "kind": k, "state": states[k], "black": black,
                              "appended_to_file_without_trailing_newline":
                                  states[k] == "absent" and bool(pre[f]) and not pre[f].endswith("\n")}})
            continue
        name = target_name(p, k)
        try:
            ir = cdd_parse(text, k, name)
        except BaseException as e:
            v.append({"clause": "B2", "detail": "target %s in %s cannot be parsed back: %s" % (name, f, e),
                      "sig": {"what": "target_unparsable", "kind": k, "state": states[k]}})
            continue
        if ir is None:
            v.append({"clause": "B2", "detail": "target %s not found in %s after sync (initial state: %s)" % (
                name, f, states[k]),
                "sig": {"what": "target_missing", "kind": k, "dotted": "." in name}})
            continue
        if k == truth:
            d, _ = compare_iface(truth_if, iface_of(ir), "class")
            if d and in_domain(truth_if):
                v.append({"clause": "B3", "detail": "truth's own interface changed: %s" % "; ".join(d[:3]),
                          "sig": {"what": "truth_changed", "truth": truth}})
        elif not in_domain(truth_if):
            bump(probe, "truth_outside_domain_b2_skipped")
        else:
            d, lossy = compare_iface(truth_if, iface_of(ir), k)
            if d:
                untouched = states[k] == "present" and _target_dump(pre[f], name) == _target_dump(post[f], name)
                v.append({"clause": "B2", "detail": "%s target %s (initially %s) differs from truth %s: %s" % (
                    k, name, states[k], truth, "; ".join(d[:3])),
                    "sig": {"what": "target_differs", "kind": k,
                            "existing_target_left_untouched": untouched,
                            "lossy": None if untouched else lossy}})
        if states[k] == "present" and pre[f] != post[f]:
            bump(probe, "class_target_rewritten" if k == "class" else k + "_target_rewritten")
        if states[k] == "absent" and pre[f] != post[f]:
            bump(probe, "target_appended_to_existing_file")
        if states[k] == "empty" and post[f]:
            bump(probe, "empty_file_filled")
        if states[k] == "missing" and post[f] is not None:
            bump(probe, "missing_file_created")
        # B4 outside code unchanged
        if pre[f] not in (None, "") and _parses(pre[f]):
            try:
                names_here = [target_name(p, k2) for k2 in KINDS if FILES[k2] == f]
                a, b = outside_dump(pre[f], k, names_here), outside_dump(text, k, names_here)
            except BaseException:
                continue
            if a != b:
                v.append({"clause": "B4", "detail": "code outside target %s changed in %s: %s" % (name, f, _fd(a, b)),
                          "sig": {"what": "outside_changed", "kind": k, "state": states[k]}})
    return v


def spec_iface(spec):
    """The interface the harness wrote (own renderer), in iface_of's shape."""
    out = []
    for q in spec["params"]:
        d = "<absent>"
        if q.get("default") is not None:
            d = repr(ast.literal_eval(q["default"]))
        out.append((q["name"], q["typ"], d, norm_doc(q["doc"])))
    return out


def check_truth_read(p, truth, text, truth_if, specs, probe, bump):
    """B2 speaks about the truth's interface, and B2/B3 read it with cdd's own parser on both sides of the comparison.
    Where the truth's target is still verbatim what the simulated user wrote (initial file or a later edit; the spec it
    was rendered from is known), what cdd reads out of it is additionally compared with that spec: names and order,
    types, explicit defaults, descriptions.  A parser that reads the truth wrongly makes every target 'equal' to a wrong
    interface, which the two-sided comparison cannot see."""
    v = []
    spec = None
    for sp in specs:
        if render_target(p, truth, sp) in (text or ""):
            spec = sp
    if spec is None:
        return v
    bump(probe, "truth_read_checked_against_spec")
    if truth == "class" and p.get("legacy_attr"):
        # render_target also wrote the un-annotated `legacy = 1`, which is part of what cdd reads
        truth_if = [t for t in truth_if if t[0] != "legacy"]
    for fld, name, a, b in read_vs_spec(truth, spec, truth_if):
        if fld == "names":
            return [{"clause": "B2", "detail": "truth %s written with parameters %s is read as %s" % (truth, a, b),
                     "sig": {"what": "truth_misread", "truth": truth, "field": "names"}}]
        v.append({"clause": "B2", "detail": "truth %s: %s of %s was written as %r and is read as %r" % (
            truth, fld, name, a, b), "sig": {"what": "truth_misread", "truth": truth, "field": fld,
                                             "written": a if fld != "description" else None,
                                             "read": b if fld != "description" else None}})
    return v


def read_vs_spec(kind, spec, iface):
    """[(field, parameter, written, read)]: where what cdd read (iface_of shape) differs from the spec the harness
    rendered the source from, the three documented normalisations excepted (None default marker, no spelling of Optional
    in argparse source, argparse parameters without an explicit non-None default)."""
    want = spec_iface(spec)
    if [w[0] for w in want] != [t[0] for t in iface]:
        return [("names", None, [w[0] for w in want], [t[0] for t in iface])]
    out = []
    for w, t in zip(want, iface):
        # argparse source has no spelling for Optional (the renderer writes `type=T` without `required=True`)
        wt = w[1][len("Optional["):-1] if kind == "argparse_function" and w[1].startswith("Optional[") and \
            not (t[1] or "").startswith("Optional[") else w[1]
        if wt != t[1]:
            out.append(("type", w[0], w[1], t[1]))
        if w[2] != t[2] and not (w[2] == "None" and t[2] in NONE_MARKS) and \
                not (w[2] in ("<absent>", "None") and kind == "argparse_function"):
            out.append(("default", w[0], w[2], t[2]))
        if w[3] != t[3]:
            out.append(("description", w[0], w[3], t[3]))
    return out


def _fd(a, b):
    i = 0
    while i < min(len(a), len(b)) and a[i] == b[i]:
        i += 1
    return "…%s != …%s" % (a[max(0, i - 50):i + 70], b[max(0, i - 50):i + 70])


# ------------------------------------------------------------------------------ runner interface
def plan(tier, seed, scale=1.0):
    per = int({"quick": 110, "thorough": 1500}[tier] * scale)
    return [{"seed": seed * 1000 + w, "n": per, "tier": tier} for w in range(16)]


def work(task):
    known = load_known(ID)
    return explore(plans(enum_every=5 if task["tier"] == "quick" else 3), simulate, task["seed"], task["n"], known,
                   batch=28 if task["tier"] == "quick" else 60,
                   max_shrink_runs=300, max_shrink_s=60)


def replay(trace):
    return simulate(trace["plan"]).violations
