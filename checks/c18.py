"""C18 — every public module imports cleanly on its own, in any order.

Interpreter-restart model (DESIGN.md §3 C18): an import history is the sequence of first-imports after a
restart (empty sys.modules).  Singles run in REAL fresh interpreters (exhaustive, both tiers); ordered
pairs use the in-process restart (purge of cdd* from sys.modules; exhaustive in the thorough tier, a seeded
sample that contains every pair touching an anchor module in the quick tier) with a seeded share re-run
in real interpreters; longer seeded histories of 3..8 imports compare two permutations of the same set.
"""
import importlib
import json
import os
import random
import subprocess
import sys
import traceback

from cddsim import PYTHON, REPO, proc
from cddsim.runner import stable_hash

ID = "C18"
LEVEL = "exploration"
RULE = ("History = sequence of first-imports after a simulated interpreter restart. Singles: each of the N non-test "
        "modules as first import in a real fresh interpreter (exhaustive). Pairs: for unordered {a,b} both orders after an "
        "in-process restart; H1 both imports succeed in both orders, H2 the public names bound in a and in b are the same "
        "after (a,b) and after (b,a); all pairs in the thorough tier, in the quick tier every pair touching an anchor "
        "module plus a seeded sample; a seeded 5% re-run in real interpreters. Longer: seeded sets of 3..8 modules in two "
        "seeded orders, same comparison. Non-trivial = history of >= 1 module whose import executed (not cached); "
        "distinct = distinct history.")
ASSUMPTIONS = [
    "in-process restart = deleting every cdd* entry from sys.modules; validated against real interpreters on all "
    "singles and on a seeded share of pairs in every run",
    "third-party and stdlib modules stay loaded across in-process restarts",
    "public names = [n for n in vars(module) if not n.startswith('_')]",
]
REAL = ["cdd modules (working tree)", "CPython import system", "real fresh interpreters for singles and confirmation"]
STUBBED = ["process restart in the bulk pair/sequence exploration (sys.modules purge)"]
ANCHORS = ("cdd.class_.parse", "cdd.function.parse", "cdd.shared.parse.utils.parser_utils",
           "cdd.shared.docstring_parsers", "cdd.function.emit", "cdd.shared.ast_utils")
TASK_TIMEOUT = {"quick": 900, "thorough": 5400}
MAX_REPORT = 8

CHILD = r"""
import importlib, json, sys
out = {"ok": True, "names": {}}
hist = json.loads(sys.argv[1])
for m in hist:
    try:
        importlib.import_module(m)
    except BaseException as e:
        import traceback
        tb = traceback.extract_tb(e.__traceback__)
        site = None
        for fr in tb:
            if "/cdd/" in fr.filename and "/tests/" not in fr.filename:
                site = "%s:%d" % (fr.filename.split("/cdd/", 1)[1], fr.lineno)
        out = {"ok": False, "failing": m, "error": type(e).__name__, "msg": str(e)[:200], "site": site, "names": {}}
        break
if out["ok"]:
    for m in sorted(x for x in sys.modules if x == "cdd" or x.startswith("cdd.")):
        if not m.startswith("cdd.tests"):
            out["names"][m] = sorted(n for n in vars(sys.modules[m]) if not n.startswith("_"))
print(json.dumps(out))
"""


def probes():
    return ["singles_real", "pairs_inprocess", "pairs_real_crosscheck", "longer_histories", "anchor_pairs"]


def run_real(history):
    """The history in a real fresh interpreter."""
    p = subprocess.run([PYTHON, "-c", CHILD, json.dumps(history)], stdout=subprocess.PIPE, stderr=subprocess.PIPE,
                       text=True, timeout=120, env=proc.child_env(0), cwd="/")
    try:
        return json.loads(p.stdout.strip().splitlines()[-1])
    except Exception:
        return {"ok": False, "failing": "?", "error": "ChildDied", "msg": (p.stderr or "")[-300:], "site": None, "names": {}}


_preloaded = [False]


def preload():
    """Load, in this (parent) process, every NON-cdd module that importing the whole package pulls in, without ever
    importing cdd here: a forked child then starts from the state of a fresh interpreter whose third-party modules are
    already in memory, and pays only for the cdd modules of its history."""
    if _preloaded[0]:
        return
    r, w = os.pipe()
    pid = os.fork()
    if pid == 0:
        try:
            os.close(r)
            for m in proc.public_modules():
                try:
                    importlib.import_module(m)
                except BaseException:
                    pass
            names = sorted(m for m in sys.modules if not (m == "cdd" or m.startswith("cdd.")))
            with os.fdopen(w, "w") as f:
                f.write(json.dumps(names))
        finally:
            os._exit(0)
    os.close(w)
    with os.fdopen(r) as f:
        names = json.loads(f.read() or "[]")
    os.waitpid(pid, 0)
    for m in names:
        if m in sys.modules or m.startswith("__"):
            continue
        try:
            importlib.import_module(m)
        except BaseException:
            pass
    assert not any(m == "cdd" or m.startswith("cdd.") for m in sys.modules), "the parent must never import cdd"
    _preloaded[0] = True


def run_inprocess(history):
    """The history in a forked child of a parent that never imported cdd: every history starts from a fresh copy of
    the interpreter state (S4: the restart is a fork, so mutations of stdlib/third-party modules made by one history —
    e.g. appending to `typing.__all__` — cannot leak into the next one)."""
    preload()
    r, w = os.pipe()
    pid = os.fork()
    if pid == 0:
        try:
            os.close(r)
            res = _run_here(history)
            with os.fdopen(w, "w") as f:
                f.write(json.dumps(res))
        except BaseException as e:  # pragma: no cover
            try:
                os.write(w, json.dumps({"ok": False, "failing": "?", "error": type(e).__name__, "msg": str(e)[:200],
                                        "site": None, "names": {}}).encode())
            except BaseException:
                pass
        finally:
            os._exit(0)
    os.close(w)
    with os.fdopen(r) as f:
        data = f.read()
    os.waitpid(pid, 0)
    try:
        return json.loads(data)
    except ValueError:
        return {"ok": False, "failing": "?", "error": "ChildDied", "msg": data[-200:], "site": None, "names": {}}


def _run_here(history):
    out = {"ok": True, "names": {}}
    for m in history:
        try:
            importlib.import_module(m)
        except BaseException as e:
            site = None
            for fr in traceback.extract_tb(e.__traceback__):
                if "/cdd/" in fr.filename and "/tests/" not in fr.filename:
                    site = "%s:%d" % (fr.filename.split("/cdd/", 1)[1], fr.lineno)
            return {"ok": False, "failing": m, "error": type(e).__name__, "msg": str(e)[:200], "site": site, "names": {}}
    for m in sorted(x for x in sys.modules if x == "cdd" or x.startswith("cdd.")):
        if not m.startswith("cdd.tests"):
            out["names"][m] = sorted(n for n in vars(sys.modules[m]) if not n.startswith("_"))
    return out


def _h1(history, r):
    return {"clause": "H1",
            "detail": "import history %s: importing %s fails with %s: %s (at cdd/%s)" % (
                history, r["failing"], r["error"], r["msg"][:160], r.get("site")),
            "sig": {"what": "import_fails", "module": r["failing"], "site": r.get("site")},
            "trace": {"kind": "c18-history", "imports": list(history)}}


def _h2(h1, h2, r1, r2):
    diffs = []
    # the two named modules first, then every other cdd module that both orders ended up loading: a package
    # legitimately gains submodule attributes as more of it is imported, but both orders load the same set
    both = [m for m in h1] + sorted(m for m in r1["names"] if m in r2["names"] and m not in h1)
    for m in both:
        a, b = r1["names"].get(m), r2["names"].get(m)
        if a is not None and b is not None and a != b:
            diffs.append((m, sorted(set(a or []) ^ set(b or []))[:8]))
    if not diffs:
        return None
    return {"clause": "H2",
            "detail": "public names differ between import orders %s and %s: %s" % (h1, h2, diffs[:3]),
            "sig": {"what": "names_differ", "module": diffs[0][0]},
            "trace": {"kind": "c18-orders", "orders": [list(h1), list(h2)]}}


def minimise(history, runner):
    """Drop imports before the failing one while the same module still fails."""
    r = runner(history)
    if r["ok"]:
        return history
    fail = r["failing"]
    hist = history[:history.index(fail) + 1]
    i = 0
    while i < len(hist) - 1:
        cand = hist[:i] + hist[i + 1:]
        rr = runner(cand)
        if not rr["ok"] and rr["failing"] == fail:
            hist = cand
        else:
            i += 1
    return hist


def work(task):
    import warnings
    warnings.simplefilter("ignore")
    mods = proc.public_modules()
    st = {"runs": 0, "evaluations": 0, "commands": 0, "outcomes": {}, "probes": {}, "seeds": [task["seed"]],
          "extra": {"modules": len(mods)}}
    viols, samples, digests = [], [], []

    def bump(k, n=1):
        st["probes"][k] = st["probes"].get(k, 0) + n

    def record(history, r):
        st["runs"] += 1
        st["evaluations"] += 1
        st["commands"] += len(history)
        key = "ok" if r["ok"] else "import_error"
        st["outcomes"][key] = st["outcomes"].get(key, 0) + 1
        digests.append(stable_hash(history))

    part = task["part"]
    if part == "singles":
        for m in task["modules"]:
            r = run_real([m])
            record([m], r)
            bump("singles_real")
            if not r["ok"]:
                viols.append(_h1([m], r))
            # fidelity of the stub: the in-process restart must give the same verdict
            ri = run_inprocess([m])
            if ri["ok"] != r["ok"]:
                st["extra"]["restart_model_disagreements"] = st["extra"].get("restart_model_disagreements", 0) + 1
        if task["modules"] and len(samples) < 1:
            samples.append({"single_first_import_real_interpreter": task["modules"][0]})
    elif part == "pairs":
        rng = random.Random(task["seed"])
        for a, b in task["pairs"]:
            r1 = run_inprocess([a, b])
            r2 = run_inprocess([b, a])
            record([a, b], r1)
            record([b, a], r2)
            bump("pairs_inprocess", 2)
            if a in ANCHORS or b in ANCHORS:
                bump("anchor_pairs", 2)
            for h, r in (([a, b], r1), ([b, a], r2)):
                if not r["ok"]:
                    hm = minimise(h, run_inprocess)
                    viols.append(_h1(hm, run_inprocess(hm)))
            if r1["ok"] and r2["ok"]:
                v = _h2([a, b], [b, a], r1, r2)
                if v:
                    viols.append(v)
            if rng.random() < task.get("real_share", 0.05):
                rr = run_real([a, b])
                bump("pairs_real_crosscheck")
                if rr["ok"] != r1["ok"] or (rr["ok"] and rr["names"] != r1["names"]):
                    st["extra"]["restart_model_disagreements"] = st["extra"].get("restart_model_disagreements", 0) + 1
                    if not rr["ok"]:
                        viols.append(_h1([a, b], rr))
        if task["pairs"]:
            samples.append({"ordered_pair_both_orders": list(task["pairs"][0])})
    else:  # longer histories
        rng = random.Random(task["seed"])
        for _ in range(task["n"]):
            k = rng.randint(3, 8)
            chosen = rng.sample(mods, k)
            h1 = list(chosen)
            h2 = list(chosen)
            rng.shuffle(h2)
            r1, r2 = run_inprocess(h1), run_inprocess(h2)
            record(h1, r1)
            record(h2, r2)
            bump("longer_histories", 2)
            for h, r in ((h1, r1), (h2, r2)):
                if not r["ok"]:
                    hm = minimise(h, run_inprocess)
                    viols.append(_h1(hm, run_inprocess(hm)))
            if r1["ok"] and r2["ok"]:
                v = _h2(h1, h2, r1, r2)
                if v:
                    viols.append(v)
            if len(samples) < 2:
                samples.append({"history": h1, "permutation": h2})
    # one violation per class from this worker
    seen, uniq = set(), []
    for v in viols:
        k = json.dumps([v["clause"], v["sig"]], sort_keys=True)
        if k not in seen:
            seen.add(k)
            v["trace"]["seed"] = task["seed"]
            uniq.append(v)
    if task.get("exhaustive"):
        st["exhaustive"] = True
    return {"stats": st, "violations": uniq, "samples": samples, "digests": digests, "nontrivial": digests}


def plan(tier, seed, scale=1.0):
    mods = proc.public_modules()
    rng = random.Random(seed)
    tasks = []
    for w in range(8):
        tasks.append({"part": "singles", "modules": mods[w::8], "seed": seed})
    unordered = [(a, b) for i, a in enumerate(mods) for b in mods[i + 1:]]
    if tier == "quick" and scale < 1.0:
        anchor = [p for p in unordered if p[0] in ANCHORS or p[1] in ANCHORS]
        rest = [p for p in unordered if p not in set(anchor)]
        pairs = anchor + rng.sample(rest, min(len(rest), int(120 * scale)))
        exhaustive = False
    else:
        # with fork-based restarts an ordered pair costs ~40 ms: both tiers enumerate the pair space completely
        pairs = unordered
        exhaustive = True
    nw = 16
    for w in range(nw):
        tasks.append({"part": "pairs", "pairs": pairs[w::nw], "seed": seed * 1000 + w, "real_share": 0.05,
                      "exhaustive": exhaustive})
    n_long = int({"quick": 40, "thorough": 1500}[tier] * scale)
    for w in range(8):
        tasks.append({"part": "longer", "n": n_long, "seed": seed * 1000 + 100 + w})
    return tasks


def replay(trace):
    """Confirmation always uses REAL fresh interpreters."""
    if trace["kind"] == "c18-history":
        r = run_real(trace["imports"])
        return [] if r["ok"] else [_h1(trace["imports"], r)]
    h1, h2 = trace["orders"]
    r1, r2 = run_real(h1), run_real(h2)
    out = []
    for h, r in ((h1, r1), (h2, r2)):
        if not r["ok"]:
            out.append(_h1(h, r))
    if r1["ok"] and r2["ok"]:
        v = _h2(h1, h2, r1, r2)
        if v:
            out.append(v)
    return out
