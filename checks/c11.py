"""C11 — every parse, emit and doctrans call terminates within a budget proportional to its input.

Virtual step clock (line events of cdd code; DESIGN.md §3 C11): an operation may use at most
B(n) = B0 + B1*n simulated steps for an input of n characters.  Workload: (a) docstring texts over a token
alphabet, exhaustive to a small length and seeded beyond; (b) interface specs with arbitrary prose through
every emitter x style x indent; (c) fault-derived inputs: well-formed docstrings and modules truncated at
seeded offsets (what a torn write leaves behind); (d) histories: doctrans applied 1..3 times to its own
output on the simulated disk, emit∘parse applied repeatedly.
"""
import ast
import itertools
import json
import random
import signal
import sys

from cddsim import gen, ops, proc, pureops
from cddsim.clock import BudgetExceeded, StepClock
from cddsim.runner import load_known, stable_hash
from cddsim.world import SimWorld

ID = "C11"
LEVEL = "exploration"
B0 = 150000      # steps; >= 25x what any small-input operation used on the repaired tree (evidence: envelope_* keys)
B1 = 8000        # steps per input character (measured maximum 320)
WALL_BACKSTOP_S = 60
MAX_HANGS_PER_WORKER = 6
RULE = ("(a) every string over a 27-token docstring alphabet up to length 3 (quick) / 4 (thorough) plus seeded longer "
        "ones, each fed to the docstring parser (two option sets), the three docstring round-trips and embedded in a "
        "function and a class for the source parsers; (b) seeded interface specs whose prose is drawn from a pool of "
        "empty / whitespace-only / leading-blank / header-without-body / back-tick strings through all nine emitters "
        "x three styles x indent levels x word-wrap; (c) well-formed docstrings and modules truncated at seeded byte "
        "offsets; (d) doctrans applied 1..3 times to generated modules on the simulated disk. Every operation runs "
        "under the line-event clock with budget B0 + B1*n. Non-trivial = the operation executed more than 50 steps; "
        "distinct = distinct (operation kind, input hash).")
ASSUMPTIONS = [
    "decides non-termination and gross blow-ups (budget = 25x the measured envelope), not the asymptotic class",
    "a hang inside C code produces no line events and is caught by a %d s wall-clock backstop instead" % WALL_BACKSTOP_S,
    "raising is a legitimate way to terminate",
]
REAL = ["cdd parsers, emitters and doctrans (working tree)", "CPython ast"]
STUBBED = ["time: the clock is the count of cdd line events (sys.settrace), never the wall clock"]

TOKENS = (":param x:", ":type x:", ":return:", ":rtype:", "Args:", "Returns:", "Parameters\n----------",
          "Returns\n-------", "x", "int", "`", "```", ":", "\n", "    ", " ", "(", ")", "Defaults to 5", ".",
          "\t", " or ", " of ", ",", '"', "'", "-" * 32,
          # an entry whose name is missing (what is left of `:param x:` when the name is deleted)
          ":param :")
# tokens whose length-3 combinations get the full operation set in the exhaustive part (added after the first version
# of the alphabet: a rule much longer than the header above it)
HEAVY = ("-" * 32,)
WHITESPACE_VARIANTS = ("\t", "\r", "\x0b", "\x0c", "\u00a0", "  ", "\n", " \n", "\t\t")
CORE = (":param x:", ":type x:", ":return:", "Args:", "Parameters\n----------", "x", "```", ":", "\n", "    ", " ", "`")
PROSE = ("", " ", "   ", "\n", "\t", "   \nfoo", "\n\nfoo", " \n \n bar", "foo\n\n   \nbar", "  leading", "trailing   ",
         "a" * 120, "word " * 30, "Defaults to 5", "Defaults to", ":param x:", "`", "```", "``` ```", "foo:\n  bar",
         "x\n    y\n        z", "Args:", "Returns:", "Parameters\n----------", ":return:", "a\n\n\n\nb", "(", "[x",
         "the first thing", "Number of things.", "either `a` or `b`", "\n   ", "   \n", "\r\n", "- item\n- item",
         "the\tvalue, an int or a str", "List of\tint or str", "a\x0bb or c", "either\u00a0x or y", "one of 'a', 'b'\tor 'c'",
         "int or\rstr", "Dict of\x0cstr", "x or", "or y", "of", "a or b or", "`a`, `b`, or\t`c`",
         # quotes inside quotes, unterminated quotes, apostrophes — in the or/of shapes and in default announcements
         'Either "it\'s" or "no".', "one of 'a\"b' or 'c'", '"unterminated or x', "it's or that's", "'a' or \"b'",
         "Defaults to 'auto", 'Defaults to "', "the owner's login or none", "List of \"x'y\" or 'z'",
         "overrides the defaults from the config file", "the Defaults section or none", "defaults")
STYLES = ("rest", "google", "numpydoc")


def probes():
    return ["parse_ops", "emit_ops", "roundtrip_ops", "source_parse_ops", "truncated_inputs", "doctrans_histories",
            "doctrans_second_pass", "whitespace_first_line_doc", "ops_over_10k_steps", "mutated_inputs",
            "posonly_signature", "expression_defaults", "doctrans_other_layout"]


class _Wall(BaseException):
    pass


def _alarm(signum, frame):
    raise _Wall()


def timed(fn, n):
    """Run fn() under the step clock.  Returns (kind, steps, tail, exc_type)."""
    budget = B0 + B1 * n
    clock = StepClock(budget=budget, tail=64)
    old = signal.signal(signal.SIGALRM, _alarm)
    signal.setitimer(signal.ITIMER_REAL, WALL_BACKSTOP_S)
    kind, exc = "ok", None
    try:
        clock.start()
        try:
            fn()
        finally:
            clock.stop()
    except BudgetExceeded:
        kind = "budget"
    except _Wall:
        kind = "wall"
    except BaseException as e:  # raising is fine
        kind, exc = "raised", type(e).__name__
    finally:
        signal.setitimer(signal.ITIMER_REAL, 0)
        signal.signal(signal.SIGALRM, old)
    return kind, clock.steps, list(clock.tail), exc


def _spin_site(tail):
    if not tail:
        return "?"
    # the loop is the set of sites in the tail; name it by its first line so that one loop is one class
    best = sorted(set(tuple(s) for s in tail))[0]
    return "%s:%d" % best


# --------------------------------------------------------------------------------- op generators
def text_ops(text):
    """All operations fed with one docstring text."""
    yield {"kind": "parse_docstring", "text": text}
    yield {"kind": "parse_docstring", "text": text, "opts": {"parse_original_whitespace": True, "infer_type": True}}
    for style in STYLES:
        yield {"kind": "docstring_roundtrip", "text": text, "opts": {"docstring_format": style, "indent_level": 1}}
    if '"""' not in text and "\\" not in text:
        body = "\n".join("    " + ln if ln else ln for ln in text.split("\n"))
        yield {"kind": "parse_source", "parser": "function",
               "source": 'def f(x, y=1):\n    """%s"""\n    return x\n' % body}
        yield {"kind": "parse_source", "parser": "class_",
               "source": 'class K(object):\n    """%s"""\n\n    x: int = 1\n' % body}
        # parsed from source, then emitted with a docstring (the emitters split the parsed docstring again)
        yield {"kind": "parse_emit", "parser": "function", "emitter": "docstring", "opts": {"docstring_format": "numpydoc"},
               "source": 'def f(x, y=1):\n    """%s"""\n    return x\n' % body}
        yield {"kind": "parse_emit", "parser": "class_", "emitter": "function", "opts": {"docstring_format": "google"},
               "source": 'class K(object):\n    """%s"""\n\n    x: int = 1\n' % body}
        # the other public parsers, each with the text where it reads prose from
        yield {"kind": "parse_source", "parser": "sqlalchemy",
               "source": 'class T(Base):\n    """%s"""\n\n    __tablename__ = "t"\n\n'
                         '    x = Column(Integer, primary_key=True)\n' % body}
        yield {"kind": "parse_source", "parser": "pydantic",
               "source": 'class P(BaseModel):\n    """%s"""\n\n    x: int = 1\n' % body}
        yield {"kind": "parse_source", "parser": "argparse_function",
               "source": 'def set_cli_args(argument_parser):\n    """%s"""\n    argument_parser.description = %r\n'
                         '    argument_parser.add_argument("--x", type=int, default=1, help=%r)\n'
                         '    return argument_parser\n' % (body, text, text)}
        yield {"kind": "parse_source", "parser": "json_schema",
               "source": json.dumps({"$id": "https://example.com/k.schema.json", "type": "object", "description": text,
                                     "properties": {"x": {"type": "integer", "description": text}}, "required": ["x"]})}


def spec_ops(rng):
    names = rng.sample(gen.PARAM_NAMES, rng.randint(0, 4))
    params = []
    for n in names:
        typ = rng.choice(gen.SIMPLE_TYPES + ("Optional[int]", "Literal['a', 'b']", "", "List[str]"))
        default = rng.choice((None, "1", "'a'", "None", "-2.5", "True"))
        params.append({"name": n, "typ": typ, "default": default, "doc": rng.choice(PROSE)})
    spec = {"name": rng.choice(gen.FUNC_NAMES), "doc": rng.choice(PROSE), "params": params,
            "returns": rng.choice((None, {"typ": "int", "doc": rng.choice(PROSE)}))}
    for emitter in pureops.EMITTERS:
        opts = {}
        if emitter in ("docstring", "function", "class_", "argparse_function", "sqlalchemy", "sqlalchemy_table",
                       "sqlalchemy_hybrid"):
            opts["docstring_format"] = rng.choice(STYLES)
            opts["word_wrap"] = rng.choice((True, False))
        if emitter in ("docstring", "function"):
            opts["indent_level"] = rng.choice((0, 1, 2, 3))
        if emitter == "docstring":
            opts["emit_types"] = rng.choice((True, False))
            opts["emit_default_doc"] = rng.choice((True, False))
            opts["emit_original_whitespace"] = rng.choice((True, False))
        yield {"kind": "emit", "emitter": emitter, "spec": spec, "opts": opts}


# defaults that are expressions, not literals: data to a transpiler, however large their value or deep their tree
EXPR_DEFAULTS = ("9 ** 9 ** 9", "2 ** 2 ** 2 ** 2 ** 2 ** 2", " + ".join(["1"] * 40), " * ".join(["2"] * 64),
                 "(" * 40 + "1" + ")" * 40, "-" * 30 + "1", "'a' " + "+ 'b' " * 40, "[" * 30 + "]" * 30,
                 "not " * 30 + "True", "1 if 1 else " * 20 + "0", "10 ** 100000", "60 * 60", "(1, 2) * 3")


def expr_default_ops(rng):
    e = rng.choice(EXPR_DEFAULTS)
    fn = ('def f(a=%s, b=1):\n    """\n    Do it\n\n    :param a: the a\n    :param b: the b\n    """\n    return a\n'
          % e)
    cls = 'class K(object):\n    """\n    K thing\n\n    :cvar a: the a\n    """\n\n    a: int = %s\n' % e
    ap = ('def set_cli_args(argument_parser):\n    """\n    Set CLI arguments\n\n    :param argument_parser: parser\n'
          '    :type argument_parser: ```ArgumentParser```\n\n    :return: parser\n    :rtype: ```ArgumentParser```\n    """\n'
          '    argument_parser.description = "K thing"\n    argument_parser.add_argument("--a", type=int, default=%s, '
          'help="the a")\n    return argument_parser\n' % e)
    for parser, src in (("function", fn), ("class_", cls), ("argparse_function", ap)):
        yield {"kind": "parse_source", "parser": parser, "source": src}
        for em in rng.sample(("function", "class_", "argparse_function", "docstring", "sqlalchemy", "json_schema",
                              "pydantic"), 3):
            yield {"kind": "parse_emit", "parser": parser, "source": src, "emitter": em, "opts": {}}


RICH_DOCS = ("the %s value, an int or a str", "List of int or str for %s", "one of 'a', 'b' or 'c' (%s)",
             "either `np` or `tf` as %s", "Dict of str to int; %s", "number of %s, if any", "whether %s applies")


def mutate(rng, text):
    """One seeded character-level mutation: a whitespace variant replaces a space, a character is dropped or doubled,
    a line is duplicated."""
    if not text:
        return text
    k = rng.randint(0, 4)
    if k <= 1:
        spaces = [i for i, ch in enumerate(text) if ch == " "]
        if spaces:
            i = rng.choice(spaces)
            return text[:i] + rng.choice(WHITESPACE_VARIANTS) + text[i + 1:]
    i = rng.randrange(len(text))
    if k == 2:
        return text[:i] + text[i + 1:]
    if k == 3:
        return text[:i] + text[i] * 2 + text[i:]
    lines = text.split("\n")
    j = rng.randrange(len(lines))
    return "\n".join(lines[:j] + [lines[j]] + lines[j:])


def wellformed_docstring(rng, rich=False):
    names = rng.sample(gen.PARAM_NAMES, rng.randint(1, 4))
    spec = {"name": "f", "doc": "Do the thing with care.",
            "params": [{"name": n, "typ": rng.choice(gen.SIMPLE_TYPES), "default": None,
                        "doc": (rng.choice(RICH_DOCS) % n) if rich else
                        "the %s value. Defaults to %s" % (n, rng.choice(("5", "'a'", "None")))} for n in names],
            "returns": {"typ": "int", "doc": "the result"}}
    style = rng.choice(STYLES)
    return "\n".join(gen.render_docstring_lines(spec, style)), spec, style


# -------------------------------------------------------------------------------------- workers
def _viol(op, kind, steps, tail, n):
    where = _spin_site(tail) if kind == "budget" else "no line events (C-level)"
    return {"clause": "T1",
            "detail": "%s did not finish within %d steps (input %d chars); spinning at %s" % (
                _describe(op), B0 + B1 * n, n, where),
            "sig": {"what": "nontermination", "site": where},
            "trace": {"kind": "c11-op", "op": op}}


def _describe(op):
    if op["kind"] in ("parse_docstring", "docstring_roundtrip"):
        return "%s(%r%s)" % (op["kind"], op["text"][:60], ", " + json.dumps(op.get("opts")) if op.get("opts") else "")
    if op["kind"] == "emit":
        return "emit %s(doc=%r, params=%s, %s)" % (op["emitter"], op["spec"]["doc"][:40],
                                                   [(p["name"], p["doc"][:20]) for p in op["spec"]["params"]],
                                                   json.dumps(op.get("opts")))
    if op["kind"] == "parse_source":
        return "parse %s(%r)" % (op["parser"], op["source"][:80])
    if op["kind"] == "parse_emit":
        return "parse %s then emit %s(%r)" % (op["parser"], op["emitter"], op["source"][:80])
    if op["kind"] == "doctrans_history":
        return "doctrans history %s on a %d-char module" % (op["cmds"], len(op["source"]))
    return op["kind"]


def run_op(op, st):
    """Run one op under the clock, update stats, return a violation or None."""
    if op["kind"] == "doctrans_history":
        return run_history(op, st)
    n = pureops.input_size(op)
    kind, steps, tail, exc = timed(lambda: pureops.run(op), n)
    _account(op, st, kind, steps, n)
    if kind in ("budget", "wall"):
        return _viol(op, kind, steps, tail, n)
    return None


def _account(op, st, kind, steps, n):
    st["evaluations"] += 1
    st["commands"] += 1
    st["steps"] += steps
    k = {"parse_docstring": "parse_ops", "emit": "emit_ops", "docstring_roundtrip": "roundtrip_ops",
         "parse_source": "source_parse_ops", "doctrans": "doctrans_ops"}.get(op["kind"], op["kind"])
    st["probes"][k] = st["probes"].get(k, 0) + 1
    st["outcomes"][op["kind"] + ":" + kind] = st["outcomes"].get(op["kind"] + ":" + kind, 0) + 1
    if steps > 10000:
        st["probes"]["ops_over_10k_steps"] = st["probes"].get("ops_over_10k_steps", 0) + 1
    if n:
        r = steps / float(n)
        if steps > st["extra"]["envelope_max_steps"]:
            st["extra"]["envelope_max_steps"] = steps
        if kind != "budget" and r > st["extra"]["envelope_max_steps_per_char"] and n >= 20:
            st["extra"]["envelope_max_steps_per_char"] = round(r, 1)
    if steps > 50:
        st["_nontrivial"].add(stable_hash([op["kind"], op.get("text"), op.get("source"), op.get("spec"), op.get("opts"),
                                           op.get("emitter"), op.get("parser")]))
    if op["kind"] == "emit" and op["spec"]["doc"].split("\n")[0].isspace() and "\n" in op["spec"]["doc"]:
        st["probes"]["whitespace_first_line_doc"] = st["probes"].get("whitespace_first_line_doc", 0) + 1


def run_history(op, st):
    """doctrans applied 1..3 times to the same file on the simulated disk."""
    world = SimWorld(tag="c11")
    try:
        world.write_files({"m.py": op["source"]})
        st["probes"]["doctrans_histories"] = st["probes"].get("doctrans_histories", 0) + 1
        for i, cmd in enumerate(op["cmds"]):
            src = world.read("m.py")
            n = len(src)
            o = ops.invoke(world, {"cmd": "sdk", "fn": "cdd.compound.doctrans.doctrans",
                                   "kwargs": {"filename": "{ROOT}/m.py", "docstring_format": cmd[0],
                                              "type_annotations": cmd[1], "no_word_wrap": None if cmd[2] else True}},
                           budget=B0 + B1 * n, tail=64, wall_s=WALL_BACKSTOP_S)
            _account({"kind": "doctrans"}, st, o.kind, o.steps, n)
            if i > 0:
                st["probes"]["doctrans_second_pass"] = st["probes"].get("doctrans_second_pass", 0) + 1
            if o.kind in ("budget", "timeout"):
                tail = o.clock.tail if o.clock is not None else []
                v = _viol(dict(op, cmds=op["cmds"][:i + 1]), "budget" if o.kind == "budget" else "wall", o.steps, tail, n)
                v["detail"] = "pass %d: %s" % (i + 1, v["detail"])
                return v
            if not o.ok:
                break
    finally:
        world.destroy()
    return None


def new_stats():
    return {"runs": 0, "evaluations": 0, "commands": 0, "steps": 0, "outcomes": {}, "probes": {}, "seeds": [],
            "extra": {"envelope_max_steps": 0, "envelope_max_steps_per_char": 0.0, "budget_B0": B0, "budget_B1": B1},
            "_nontrivial": set()}


def minimise(op):
    """Greedy reduction of a non-terminating operation while it still exceeds its budget."""
    st = new_stats()

    def bad(o):
        return run_op(o, st) is not None

    if op["kind"] in ("parse_docstring", "docstring_roundtrip"):
        text = op["text"]
        chunk = max(1, len(text) // 2)
        while chunk >= 1:
            i = 0
            while i < len(text):
                cand = text[:i] + text[i + chunk:]
                if cand != text and bad(dict(op, text=cand)):
                    text = cand
                else:
                    i += chunk
            chunk //= 2
        return dict(op, text=text)
    if op["kind"] == "emit":
        spec = json.loads(json.dumps(op["spec"]))
        i = 0
        while i < len(spec["params"]):
            cand = dict(spec, params=spec["params"][:i] + spec["params"][i + 1:])
            if bad(dict(op, spec=cand)):
                spec = cand
            else:
                i += 1
        if spec.get("returns") and bad(dict(op, spec=dict(spec, returns=None))):
            spec = dict(spec, returns=None)
        for p in spec["params"]:
            for simple in ("x", ""):
                old = p["doc"]
                p["doc"] = simple
                if bad(dict(op, spec=spec)):
                    break
                p["doc"] = old
        return dict(op, spec=spec)
    if op["kind"] == "doctrans_history":
        return op
    return op


def work(task):
    import warnings
    warnings.simplefilter("ignore")
    proc.import_all()
    import io
    old_streams = (sys.stdout, sys.stderr)
    sys.stdout, sys.stderr = io.StringIO(), io.StringIO()   # cdd prints while parsing odd inputs; only the coordinator reports
    rng = random.Random(task["seed"])
    st = new_stats()
    st["seeds"].append(task["seed"])
    viols, samples = [], []
    seen_sites = set()
    known = load_known(ID)

    class _Enough(Exception):
        pass

    hangs = [0]

    def handle(op):
        if hangs[0] >= MAX_HANGS_PER_WORKER:
            raise _Enough()
        v = run_op(op, st)
        if v is not None:
            # a hang without line events costs the whole wall backstop: two of those are enough
            hangs[0] += 3 if "no line events" in v["sig"]["site"] else 1
        if v is not None and v["sig"]["site"] not in seen_sites:
            seen_sites.add(v["sig"]["site"])
            small = minimise(op)
            v2 = run_op(small, st) or v
            v2["trace"]["seed"] = task["seed"]
            viols.append(v2)

    try:
        part = task["part"]
        if part == "enum":
            # exhaustive token strings: this worker takes every `stride`-th string
            toks, length = (TOKENS, task["length"]) if task["alphabet"] == "full" else (CORE, task["length"])
            i = 0
            for L in range(0, length + 1):
                for combo in itertools.product(toks, repeat=L):
                    if i % task["stride"] == task["offset"]:
                        text = "".join(combo)
                        full = L <= 2 or (L == 3 and any(t in HEAVY for t in combo))
                        for op in (text_ops(text) if full else itertools.islice(text_ops(text), 3 if L == 3 else 1)):
                            handle(op)
                        st["runs"] += 1
                    i += 1
            st["exhaustive_strings"] = st["runs"]
        else:
            from checks import c07
            from hypothesis import strategies as hst  # noqa: F401
            for r in range(task["n"]):
                st["runs"] += 1
                which = r % 4
                if which == 0:      # (a) seeded longer token strings
                    text = "".join(rng.choice(TOKENS) for _ in range(rng.randint(4, 14)))
                    for op in text_ops(text):
                        handle(op)
                    if len(samples) < 2:
                        samples.append({"docstring_text": text})
                elif which == 1:    # (b) prose through every emitter
                    for op in spec_ops(rng):
                        handle(op)
                        if len(samples) < 3 and op["emitter"] == "docstring":
                            samples.append({"emit": op["emitter"], "spec": op["spec"], "opts": op["opts"]})
                elif which == 2:    # (c) fault-derived: truncated well-formed inputs
                    text, spec, style = wellformed_docstring(rng)
                    for _ in range(4):
                        cut = rng.randint(0, len(text))
                        st["probes"]["truncated_inputs"] = st["probes"].get("truncated_inputs", 0) + 1
                        for op in itertools.islice(text_ops(text[:cut]), 5):
                            handle(op)
                    src = gen.render_function(spec, style=style)
                    cut = rng.randint(0, len(src))
                    handle({"kind": "doctrans_history", "source": src[:cut], "cmds": [[rng.choice(STYLES), True, False]]})
                elif which == 3 and r % 16 == 7:   # (f) expression defaults in sources
                    st["probes"]["expression_defaults"] = st["probes"].get("expression_defaults", 0) + 1
                    for op in expr_default_ops(rng):
                        handle(op)
                elif which == 3 and r % 8 == 3:   # (e) whitespace / character mutations of well-formed docstrings
                    text, spec, style = wellformed_docstring(rng, rich=True)
                    for _ in range(6):
                        t = mutate(rng, text)
                        st["probes"]["mutated_inputs"] = st["probes"].get("mutated_inputs", 0) + 1
                        for op in itertools.islice(text_ops(t), 6):
                            handle(op)
                else:               # (d) histories on the simulated disk
                    mod = _draw_module(rng)
                    if rng.random() < 0.35:
                        # the same program in another lexical layout: indentation unit, line endings, one more level
                        mod = relayout(rng, mod)
                        st["probes"]["doctrans_other_layout"] = st["probes"].get("doctrans_other_layout", 0) + 1
                    cmds = [[rng.choice(STYLES), rng.choice((True, False)), rng.choice((True, False))]
                            for _ in range(rng.randint(1, 3))]
                    handle({"kind": "doctrans_history", "source": mod, "cmds": cmds})
                    if len(samples) < 4:
                        samples.append({"doctrans_history": cmds, "source": mod[:600]})
    except _Enough:
        # every non-terminating operation burns its whole budget; a few are enough to report
        st["stopped_after_hangs"] = 1
    if POSONLY[0]:
        st["probes"]["posonly_signature"] = POSONLY[0]
        POSONLY[0] = 0
    sys.stdout, sys.stderr = old_streams
    nontrivial = sorted(st.pop("_nontrivial"))
    return {"stats": st, "violations": viols, "samples": samples, "digests": nontrivial, "nontrivial": nontrivial}


POSONLY = [0]


def _draw_module(rng):
    """A module of 1..3 documented functions/classes rendered by the harness (styles mixed)."""
    parts = ["from typing import Optional, Literal", ""]
    used = set()
    for _ in range(rng.randint(1, 3)):
        name = rng.choice([n for n in gen.FUNC_NAMES if n not in used])
        used.add(name)
        names = rng.sample(gen.PARAM_NAMES, rng.randint(0, 4))
        nd = rng.randint(0, len(names))
        params = []
        for i, n in enumerate(names):
            typ = rng.choice(gen.SIMPLE_TYPES + ("Optional[int]",))
            default = {"int": "3", "float": "0.5", "str": "'a'", "bool": "True", "Optional[int]": "None"}[typ] \
                if i >= len(names) - nd else None
            params.append({"name": n, "typ": typ, "default": default,
                           "doc": " ".join(rng.choice(gen.WORDS) for _ in range(rng.randint(1, 6)))})
        spec = {"name": name, "doc": rng.choice(("Do the thing.", "Compute it\n\nLonger text here.", "", "  indented")),
                "params": params, "returns": rng.choice((None, {"typ": "int", "doc": "the result"}))}
        if rng.random() < 0.25:
            spec["name"] = name.title().replace("_", "")
            parts.append(gen.render_class(spec))
        else:
            src = gen.render_function(spec, style=rng.choice(STYLES), annotate=rng.random() < 0.4,
                                      doc=rng.random() < 0.9)
            if params and rng.random() < 0.2:
                # positional-only marker after a seeded parameter: def f(a, b=5, /, c=1)
                head, rest = src.split("\n", 1)
                inside = head[head.index("(") + 1:head.rindex(")")]
                bits = gen_split(inside)
                j = rng.randint(1, len(bits))
                head = head[:head.index("(") + 1] + ", ".join(bits[:j] + ["/"] + bits[j:]) + head[head.rindex(")"):]
                src = head + "\n" + rest
                POSONLY[0] += 1
            parts.append(src)
        parts.append("")
    return "\n".join(parts)


def relayout(rng, mod):
    """The module re-indented with another unit (1, 2, 3 or 8 spaces, a tab), optionally wrapped one level deeper
    (`if True:` block around a definition would change the program; a class around functions is new code - so the extra
    level is a class holding the module's functions as static-looking methods), optionally with CRLF / CR line ends."""
    lines = mod.split("\n")
    if rng.random() < 0.4:
        out, inside = [], False
        for ln in lines:
            if ln.startswith("def ") and not inside:
                out += ["class Holder(object):", '    """Holder."""', ""]
                inside = True
            if inside and (ln.startswith("class ") or (ln and not ln[0].isspace() and not ln.startswith("def "))):
                inside = False
            out.append(("    " + ln) if inside and ln.strip() else ln)
        lines = out
    unit = rng.choice(("  ", "  ", "\t", "   ", " ", "        "))
    out = []
    for ln in lines:
        n = len(ln) - len(ln.lstrip(" "))
        out.append(unit * (n // 4) + " " * (n % 4) + ln[n:] if ln.strip() else ln)
    text = "\n".join(out)
    try:
        ast.parse(text)
    except SyntaxError:
        return mod
    eol = rng.choice(("\n", "\n", "\n", "\r\n", "\r"))
    return text.replace("\n", eol)


def gen_split(sig):
    parts, depth, cur = [], 0, ""
    for ch in sig:
        if ch in "([{":
            depth += 1
        elif ch in ")]}":
            depth -= 1
        if ch == "," and depth == 0:
            parts.append(cur.strip())
            cur = ""
        else:
            cur += ch
    if cur.strip():
        parts.append(cur.strip())
    return parts


def plan(tier, seed, scale=1.0):
    tasks = []
    if tier == "quick":
        for w in range(4):
            tasks.append({"part": "enum", "alphabet": "full", "length": 3, "stride": 4, "offset": w, "seed": seed})
        for w in range(12):
            tasks.append({"part": "seeded", "n": int(260 * scale), "seed": seed * 1000 + w})
    else:
        for w in range(16):
            tasks.append({"part": "enum", "alphabet": "full", "length": 4, "stride": 16, "offset": w, "seed": seed})
        for w in range(16):
            tasks.append({"part": "enum", "alphabet": "core", "length": 5, "stride": 16, "offset": w, "seed": seed})
        for w in range(32):
            tasks.append({"part": "seeded", "n": int(1600 * scale), "seed": seed * 1000 + w})
    return tasks


def replay(trace):
    proc.import_all()
    st = new_stats()
    v = run_op(trace["op"], st)
    return [v] if v else []
