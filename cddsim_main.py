#!/venv/bin/python
"""Entry point behind ./check (kept as a plain script so that no check module is loaded twice)."""
import os
import sys

HERE = os.path.dirname(os.path.abspath(__file__))
if HERE not in sys.path:
    sys.path.insert(0, HERE)

import cddsim  # noqa: E402

cddsim.ensure_repo_on_path()


def main(argv):
    if not argv:
        print("usage: check <C07|...|selftest> [--tier quick|thorough] [--replay FILE] [--seed N]")
        return 2
    name = argv[0]
    if name == "selftest":
        from cddsim import selftest
        return selftest.main(argv[1:])
    modname = name if name.startswith("checks.") else "checks." + name.lower()
    from cddsim import runner
    return runner.run_check(modname, argv[1:])


if __name__ == "__main__":
    sys.exit(main(sys.argv[1:]))
